#!/venv/bin/python
"""Regenerates /verif/MANIFEST.json from the table below (kept in one place
so that the manifest is always schema-valid)."""
import json
import os
import sys

VERIF = os.path.dirname(os.path.dirname(os.path.abspath(__file__)))

IMPLEMENTED = sys.argv[1:] or ["C08", "C10", "C11", "C12", "C13", "C14",
                               "C15", "C19", "C20"]

CHECKS = {
    "C12": dict(
        engine="pipeline", cat="exploration", ref="DESIGN.md §4.1 (C12)",
        technique="deterministic simulation: real worker threads under a "
                  "seeded baton scheduler with virtual clock; faults: "
                  "queue-timeout firings, source/disk stalls, starved roles, "
                  "line pre-emption, bounded-inbox overflow, injected garbage "
                  "collections; exactly-once in-order history check + "
                  "bounded-step termination",
        text="Seeded search over thread interleavings, queue-timeout firings, "
             "stalls and starvation of the real auditok worker threads; each "
             "run's observer histories are checked for exactly-once in-order "
             "delivery against the sequential split() of the same tree, and "
             "termination is decided as a bounded number of fair scheduler "
             "steps. Sampling evidence, not proof: schedules are drawn, not "
             "enumerated.",
        note="Trusts: atomicity of queue.Queue operations; line-granularity "
             "pre-emption (only in runs with p_preempt>0); sequential split() "
             "as reference for what the detections are; CPython 3.12."),
    "C13": dict(
        engine="pipeline", cat="exploration", ref="DESIGN.md §4.1 (C13)",
        technique="deterministic simulation of reader/writer threads with "
                  "seeded schedules, lagging-writer starvation, slow disk, "
                  "randomised cache sizes, inbox backlogs beyond 1024 blocks, "
                  "a second concurrent pipeline, injected garbage collections; "
                  "byte-exact file oracles",
        text="Same simulator as C12 with scenarios biased to savers: the "
             "stream saver's writer thread is starved/stalled, cache sizes "
             "span 0..beyond-stream, joiner silence durations and region "
             "templates are drawn; files written to a per-run scratch dir are "
             "compared byte-for-byte (and wav header) with what the simulated "
             "source served and with the sequential oracle.",
        note="Trusts: stdlib wave for reading files back; real file system "
             "(tmpfs scratch) without injected I/O errors (the property says "
             "nothing under I/O errors)."),
    "C14": dict(
        engine="stopmix", cat="fault_enumeration", ref="DESIGN.md §4.1 (C14)",
        technique="deterministic simulation with crash-point style "
                  "enumeration of the stop request over every trigger "
                  "position of a scenario x seeded schedules; prefix oracle",
        text="The stop request (stop_all) is the injected fault: thorough "
             "tier takes every trigger position of each base scenario "
             "(before first read, after each read, after each detection is "
             "handed to an observer, after each inbox put, after timeouts, at "
             "a virtual time, after natural end) under several seeded "
             "schedules each; quick tier samples positions. Oracle: observers "
             "saw exactly split(prefix actually read), saved wav == prefix, "
             "all threads end within a bounded number of fair steps, a "
             "request that has no effect at all (rest of a long stream still "
             "read) is reported. One run in five "
             "is a whole cmdline.main run with a KeyboardInterrupt injected "
             "while main sleeps (the Ctrl-C path).",
        note="Stop positions are enumerated per scenario, schedules are "
             "sampled. Interrupt during start_all()/worker construction is "
             "outside the property's quantifier and not generated."),
    "C15": dict(
        engine="cli", cat="exploration", ref="DESIGN.md §4.2",
        technique="deterministic simulation of auditok.cmdline.main(argv) "
                  "under the seeded scheduler with virtual time and simulated "
                  "stdin (slow / stalled source, slow disk and stdout, queue "
                  "timeouts, missing encoder); API-differential oracle",
        text="cmdline.main runs whole as the main simulated thread (real "
             "argparse, real workers) with drawn option subsets/values, "
             "file/stdin inputs, schedules and timeouts (interrupted cli "
             "runs belong to C14 and are generated there); stdout, "
             "exit status and files are compared with the sequential API "
             "call for the documented option mapping and defaults.",
        note="Formatter/argparse sub-claims are decided only on the values "
             "the end-to-end runs produce. Documented defaults are hard-coded "
             "in the oracle."),
    "C08": dict(
        engine="online", cat="exploration", ref="DESIGN.md §4.3",
        technique="deterministic simulation of the read seam: simulator-"
                  "owned sources log every read, EOF injected at every cut "
                  "point, consumer abandonment; hand-over-instant oracle",
        text="The tokenizer / split() / worker pipeline consume simulator-"
             "owned sources that record how much was read at each hand-over; "
             "EOF is injected at every prefix length, consumers abandon "
             "generators after k items; latency, laziness, prefix consistency "
             "and single end-of-stream request are checked.",
        note="Streams and parameters are sampled; all cut points of each "
             "sampled stream are taken."),
    "C10": dict(
        engine="readers", cat="exploration", ref="DESIGN.md §4.5",
        technique="deterministic simulation of read histories over 7 source "
                  "kinds with EOF at arbitrary offsets and reads past the "
                  "end, in lock-step with a reference framing model",
        text="Histories of construct/open/read^k (k past the end) on "
             "AudioReader over memory, file (eager/lazy raw+wav) and "
             "simulated-stdin sources with drawn block/hop/max_read and "
             "stream lengths around every boundary class, compared op by op "
             "with a small reference framing model.",
        note="Durations are drawn where floor/round are unambiguous or "
             "judged relative to the reader's own block_size."),
    "C11": dict(
        engine="srcs", cat="exploration", ref="DESIGN.md §4.4",
        technique="deterministic simulation: seeded operation histories "
                  "(reads, seeks, rewind, close/open, reads past EOF) on 4 "
                  "source kinds in lock-step with a reference cursor model",
        text="One audio behind BufferAudioSource, RawAudioSource, "
             "WaveAudioSource (scratch files) and StdinAudioSource (simulated "
             "pipe) driven by the same drawn operation history and compared "
             "after every operation with a 25-line reference model.",
        note="Sub-sample rounding of second/millisecond positions is "
             "accepted within one sample period, as the statement fixes none."),
    "C19": dict(
        engine="readers", cat="exploration", ref="DESIGN.md §4.5",
        technique="deterministic simulation of recorder histories read^k "
                  "rewind read^j rewind ... against a reference recorder "
                  "model",
        text="Histories of read/rewind/data on recording and non-recording "
             "AudioReaders (all source kinds, overlap, max_read) compared "
             "with a reference recorder model after every operation.",
        note="Same trusted base as C10."),
    "C20": dict(
        engine="reuse", cat="exploration", ref="DESIGN.md §4.6",
        technique="deterministic simulation of object-reuse histories "
                  "(complete, partial, abandoned generators; EOF in every "
                  "automaton state) with a fresh-object oracle",
        text="Histories of uses of one tokenizer / region / recorder / "
             "validator / buffer source, incl. generators abandoned after k "
             "items, each step compared with a fresh object on the same "
             "input.",
        note="Histories are sampled."),
}

NA = {
    "C01": "pure function of (frame sequence, parameter tuple); no schedule, "
           "clock, fault or history can change it - not a simulation target",
    "C02": "pure function of the same arguments; constructor accept/reject "
           "grid is a pure predicate",
    "C03": "pure function of (validity sequence, parameters)",
    "C04": "pure function; deciding it is input enumeration/proof, not "
           "simulation",
    "C05": "region bytes/times are a pure function of (audio, parameters)",
    "C06": "duration->window arithmetic and argument validation: pure float "
           "arithmetic",
    "C07": "energy threshold decision: pure arithmetic on one window",
    "C09": "deterministic equivalence of code paths; the streams involved "
           "(lazy files, stdin) are blocking BufferedReaders whose chunking "
           "no injectable fault can alter",
    "C16": "slicing: pure function of (region, bounds)",
    "C17": "region algebra on immutable values: pure functions; no history "
           "effect",
    "C18": "fault-free save/load round trip is a pure function; the property "
           "asserts nothing under I/O faults or crashes, so fault injection "
           "has no oracle",
}


def main():
    checks = []
    for pid in sorted(CHECKS):
        if pid not in IMPLEMENTED:
            continue
        c = CHECKS[pid]
        checks.append({
            "property_id": pid,
            "quick_cmd": "./check %s --tier quick" % pid,
            "thorough_cmd": "./check %s --tier thorough" % pid,
            "evidence_file": "/verif/evidence/%s.json" % pid,
            "replay_cmd_template": "./check %s --replay {path}" % pid,
            "engine": c["engine"],
            "level_claimed": {"category": c["cat"], "text": c["text"],
                              "design_ref": c["ref"]},
            "level_note": c["note"],
            "technique": c["technique"],
        })
    na = [{"property_id": k, "reason": v} for k, v in sorted(NA.items())]
    for pid in sorted(CHECKS):
        if pid not in IMPLEMENTED:
            na.append({"property_id": pid,
                       "reason": "check not built yet in this tree "
                                 "(planned: engine %s, see DESIGN.md)"
                                 % CHECKS[pid]["engine"]})
    engines = {}
    for pid in IMPLEMENTED:
        e = CHECKS[pid]["engine"]
        engines.setdefault(e, []).append(pid)
    m = {
        "version": 1,
        "setup_cmd": "/venv/bin/python -c \"import numpy\" && mkdir -p "
                     "/verif/evidence /verif/replays",
        "hooks": {
            "guard": "AUDITOK_VERIF",
            "enable": "none needed: every seam is an existing interface or a "
                      "module-level name rebound at run time by "
                      "simkit.seams.bind(); checks import /repo's working "
                      "tree directly (sys.path[0]=/repo)",
            "baseline_off_cmd": "cd /repo && /venv/bin/python -m pytest -ra "
                                "-q -p no:cacheprovider --timeout=900 "
                                "--continue-on-collection-errors",
            "source_commits": [],
            "add_only": True,
        },
        "engines": [
            {"name": e, "path": "/verif/engines/%s.py" % e,
             "serves_properties": sorted(ps),
             "kind_free_text": "deterministic simulation with fault "
                               "injection (simkit: seeded tapes, baton "
                               "scheduler, virtual clock, seam rebinding)"}
            for e, ps in sorted(engines.items())
        ],
        "checks": checks,
        "not_applicable": na,
        "notes": "All checks: ./check <id> --tier quick|thorough; honour "
                 "VERIF_SEED, VERIF_TIER, VERIF_BUDGET_S, VERIF_PROCS, "
                 "VERIF_RUNS. Exit 0 held / 1 VIOLATION / 2 ERROR (harness). "
                 "Known findings: /verif/known_findings.json.",
    }
    with open(os.path.join(VERIF, "MANIFEST.json"), "w") as f:
        json.dump(m, f, indent=1)
        f.write("\n")


if __name__ == "__main__":
    main()

"""Batch driver: seeds -> runs -> verdict, evidence, replay files.

An engine provides
    name, props
    gen(T, prop, tier)      -> scenario (JSON-able dict), consuming tape T
    run(sc, S, prop, want_trace=False) -> outcome dict:
        violation : None | {"clause": str, "detail": str, "signature": str}
        error     : None | str            (harness error, never a verdict)
        steps, simtime, sig, nontrivial, faults{}, probes{}, shape, digest,
        trace (if want_trace)
    level(prop), rule(prop), components(), assumptions(prop)
"""
import concurrent.futures as cf
import faulthandler
import gc
import hashlib
import json
import multiprocessing as mp
import os
import pickle
import select
import signal
import subprocess
import sys
import time
import traceback

from .tape import Tape, mix

VERIF = os.path.dirname(os.path.dirname(os.path.abspath(__file__)))
if os.path.abspath(os.environ.get("VERIF_REPO", "/repo")) == "/repo":
    REPLAYS = os.path.join(VERIF, "replays")
    EVIDENCE = os.path.join(VERIF, "evidence")
else:
    # runs against a scratch copy (mutants, seeded changes) must never touch
    # the evidence of the real tree
    _alt = os.path.join("/tmp", "verif_scratch_out",
                        os.path.basename(os.environ["VERIF_REPO"].rstrip("/")))
    REPLAYS = os.path.join(_alt, "replays")
    EVIDENCE = os.path.join(_alt, "evidence")
KNOWN = os.path.join(VERIF, "known_findings.json")


def run_seed_for(base, engine, prop, i):
    return mix(base, engine, prop, i)


def run_one(engine, prop, tier, run_seed=None, tapes=None, want_trace=False,
            ctx=None):
    """One simulated run.  Returns (outcome, scenario, scen_rec, sched_rec).
    ctx = {"base": base seed, "index": run index} in search mode (engines may
    use it to share a base scenario inside an enumeration group); None when
    replaying tapes."""
    if tapes is None:
        T = Tape(seed=mix(run_seed, "scenario"))
        S = Tape(seed=mix(run_seed, "schedule"))
    else:
        T = Tape(values=tapes[0])
        S = Tape(values=tapes[1])
        ctx = None
    sc = engine.gen(T, prop, tier, ctx)
    out = engine.run(sc, S, prop, want_trace=want_trace)
    return out, sc, T.record, S.record


def load_known():
    try:
        with open(KNOWN) as f:
            k = json.load(f)
    except FileNotFoundError:
        k = {}
    return k.get("open", []), k.get("fixed", [])


def match_known(open_list, prop, viol):
    for e in open_list:
        if e.get("property") == prop and e.get("clause") == viol["clause"] \
                and e.get("signature") == viol.get("signature"):
            return e
    return None


class Agg:
    def __init__(self):
        self.runs = 0
        self.steps = 0
        self.simtime = 0.0
        self.faults = {}
        self.probes = {}
        self.shapes = {}
        self.sigs = set()
        self.nontrivial_sigs = set()
        self.states = set()
        self.samples = []
        self.known = {}
        self.violation = None
        self.error = None
        self.digest = hashlib.blake2b(digest_size=8)

    def add(self, i, out, sc, engine):
        self.runs += 1
        self.steps += out.get("steps", 0)
        self.simtime += out.get("simtime", 0.0)
        for k, v in out.get("faults", {}).items():
            self.faults[k] = self.faults.get(k, 0) + v
        for k, v in out.get("probes", {}).items():
            self.probes[k] = self.probes.get(k, 0) + v
        sh = out.get("shape")
        if sh is not None:
            self.shapes[sh] = self.shapes.get(sh, 0) + 1
        st = out.get("states")
        if st:
            self.states.update(st)
        sig = out.get("sig")
        if sig is not None:
            self.sigs.add(sig)
            if out.get("nontrivial"):
                self.nontrivial_sigs.add(sig)
        if len(self.samples) < 3 and out.get("nontrivial"):
            self.samples.append({"run_index": i,
                                 "scenario": engine.describe(sc),
                                 "steps": out.get("steps", 0),
                                 "summary": out.get("summary")})

    def to_dict(self):
        return {
            "runs": self.runs, "steps": self.steps, "simtime": self.simtime,
            "faults": self.faults, "probes": self.probes,
            "shapes": self.shapes, "sigs": list(self.sigs),
            "states": list(self.states),
            "nontrivial_sigs": list(self.nontrivial_sigs),
            "samples": self.samples, "known": self.known,
            "violation": self.violation, "error": self.error,
        }


def merge(dst, d):
    dst["runs"] += d["runs"]
    dst["steps"] += d["steps"]
    dst["simtime"] += d["simtime"]
    for key in ("faults", "probes", "shapes"):
        for k, v in d[key].items():
            dst[key][k] = dst[key].get(k, 0) + v
    dst["chunks_complete"] = dst.get("chunks_complete", 0) + (
        1 if d.get("complete") else 0)
    dst["chunks_partial"] = dst.get("chunks_partial", 0) + (
        0 if d.get("complete") or not d["runs"] else 1)
    dst["sigs"].update(d["sigs"])
    dst.setdefault("states", set()).update(d.get("states", ()))
    dst["nontrivial_sigs"].update(d["nontrivial_sigs"])
    if len(dst["samples"]) < 4:
        dst["samples"].extend(d["samples"][: 4 - len(dst["samples"])])
    for k, v in d["known"].items():
        e = dst["known"].setdefault(k, {"count": 0, "what": v["what"]})
        e["count"] += v["count"]


_ENGINE = None


def _chunk(args):
    """Worker: runs indices [a, b)."""
    engine_name, prop, tier, base, a, b, deadline = args
    faulthandler.enable()
    engine = _ENGINE
    agg = Agg()
    open_list, _ = load_known()
    gc.disable()
    try:
        for i in range(a, b):
            if time.time() > deadline:
                break
            rs = run_seed_for(base, engine.name, prop, i)
            faulthandler.dump_traceback_later(600, exit=True)
            try:
                out, sc, trec, srec = run_one(
                    engine, prop, tier, run_seed=rs,
                    ctx={"base": base, "index": i})
            finally:
                faulthandler.cancel_dump_traceback_later()
            if out.get("error"):
                agg.error = {"run_index": i, "run_seed": rs,
                             "error": out["error"]}
                break
            agg.add(i, out, sc, engine)
            v = out.get("violation")
            if v is not None:
                k = match_known(open_list, prop, v)
                if k is not None:
                    e = agg.known.setdefault(
                        k["signature"], {"count": 0, "what": k["what"]})
                    e["count"] += 1
                else:
                    agg.violation = {
                        "run_index": i, "run_seed": rs, "viol": v,
                        "scen_tape": trec, "sched_tape": srec,
                    }
                    break
            if (i & 63) == 63:
                gc.collect()
    except BaseException:
        agg.error = {"run_index": -1, "run_seed": 0,
                     "error": traceback.format_exc()}
    finally:
        gc.enable()
        gc.collect()
    d = agg.to_dict()
    d["complete"] = (agg.runs == b - a)
    return a, b, d


def fork_call(fn, args):
    """Run fn(args) in a freshly forked child; returns (pid, read_fd)."""
    r, w = os.pipe()
    sys.stdout.flush()
    sys.stderr.flush()
    pid = os.fork()
    if pid == 0:
        code = 0
        try:
            os.close(r)
            try:
                res = ("ok", fn(args))
            except BaseException:
                res = ("exc", traceback.format_exc())
            data = pickle.dumps(res, protocol=pickle.HIGHEST_PROTOCOL)
            with os.fdopen(w, "wb") as f:
                f.write(data)
        except BaseException:
            code = 3
        finally:
            os._exit(code)
    os.close(w)
    return pid, r


def fork_collect(fd, pid):
    chunks = []
    while True:
        b = os.read(fd, 1 << 20)
        if not b:
            break
        chunks.append(b)
    os.close(fd)
    try:
        os.waitpid(pid, 0)
    except ChildProcessError:
        pass
    data = b"".join(chunks)
    if not data:
        return ("exc", "worker process %d died without a result" % pid)
    return pickle.loads(data)


def run_in_fork(fn, args, timeout=600):
    """Synchronous helper: fn(args) in a fresh child (clean process state)."""
    pid, fd = fork_call(fn, args)
    r, _, _ = select.select([fd], [], [], timeout)
    if not r:
        try:
            os.kill(pid, signal.SIGKILL)
        except OSError:
            pass
        os.close(fd)
        try:
            os.waitpid(pid, 0)
        except ChildProcessError:
            pass
        return ("exc", "timeout")
    return fork_collect(fd, pid)


def batch(engine, prop, tier, base, budget_s, procs, max_runs=None,
          chunk=None):
    """Run a seeded batch.  Every chunk of consecutive run indices executes
    in its own freshly forked process (so the only process state a run can
    inherit is that left by earlier runs of the same chunk - which the
    replay machinery can reproduce as a 'prelude').  The violation with the
    lowest run index among completed chunks wins."""
    global _ENGINE
    _ENGINE = engine
    t0 = time.time()
    deadline = t0 + budget_s
    total = {"runs": 0, "steps": 0, "simtime": 0.0, "faults": {},
             "probes": {}, "shapes": {}, "sigs": set(),
             "nontrivial_sigs": set(), "samples": [], "known": {}}
    violation = None
    error = None
    if chunk is None:
        chunk = 64 if tier == "quick" else 256
    nxt = 0
    live = {}  # fd -> (pid, a, b)
    stop = False

    def submit():
        nonlocal nxt
        a = nxt
        b = a + chunk
        if max_runs is not None:
            if a >= max_runs:
                return False
            b = min(b, max_runs)
        nxt = b
        pid, fd = fork_call(
            _chunk, (engine.name, prop, tier, base, a, b, deadline))
        live[fd] = (pid, a, b)
        return True

    for _ in range(procs):
        if not submit():
            break
    hard_deadline = deadline + 900
    while live:
        r, _, _ = select.select(list(live), [], [], 5.0)
        if not r:
            if time.time() > hard_deadline:
                for fd, (pid, a, b) in live.items():
                    try:
                        os.kill(pid, signal.SIGKILL)
                    except OSError:
                        pass
                error = {"error": "worker(s) stalled past the deadline: "
                         "run index ranges %r" % (
                             [(a, b) for _, a, b in live.values()],),
                         "run_index": -1, "run_seed": 0}
                break
            continue
        for fd in r:
            pid, a, b = live.pop(fd)
            kind, res = fork_collect(fd, pid)
            if kind != "ok":
                if error is None:
                    error = {"error": "worker for run indices [%d,%d) "
                             "failed: %s" % (a, b, res),
                             "run_index": -1, "run_seed": 0}
                stop = True
                continue
            _, _, d = res
            merge(total, d)
            if d["error"] and error is None:
                error = d["error"]
                stop = True
            if d["violation"] is not None:
                d["violation"]["chunk_start"] = a
                if violation is None or \
                        d["violation"]["run_index"] < violation["run_index"]:
                    violation = d["violation"]
                stop = True
            if not stop and time.time() < deadline:
                submit()
        if stop and live:
            for fd, (pid, a, b) in list(live.items()):
                try:
                    os.kill(pid, signal.SIGKILL)
                except OSError:
                    pass
                os.close(fd)
                try:
                    os.waitpid(pid, 0)
                except ChildProcessError:
                    pass
            live.clear()
    total["wall_s"] = time.time() - t0
    return total, violation, error


# ------------------------------------------------- history-dependent failures
def _seq_job(args):
    """(in a fresh fork) run a prelude of earlier runs, then the failing run.
    prelude items: ("idx", run_index) re-generated from the seed, or
    ("tapes", scen, sched)."""
    prop, tier, base, prelude, main_tapes = args
    engine = _ENGINE
    recs = []
    for item in prelude:
        if item[0] == "idx":
            i = item[1]
            rs = run_seed_for(base, engine.name, prop, i)
            _, _, t, s_ = run_one(engine, prop, tier, run_seed=rs,
                                  ctx={"base": base, "index": i})
        else:
            _, _, t, s_ = run_one(engine, prop, tier,
                                  tapes=(item[1], item[2]))
        recs.append((t, s_))
    out, sc, t, s_ = run_one(engine, prop, tier, tapes=main_tapes,
                             want_trace=True)
    out.pop("states", None)
    return out, recs, engine.describe(sc), t, s_


def find_prelude(engine, prop, tier, base, violation, clause, budget_s=90):
    """The violation did not reproduce from its own tapes: it depends on
    process state left by earlier runs of its chunk.  Find a small prelude
    of earlier runs that reproduces it (each attempt in a fresh fork).
    Returns (prelude_tapes, outcome, described_scenario, trec, srec) or
    None."""
    global _ENGINE
    _ENGINE = engine
    main = (violation["scen_tape"], violation["sched_tape"])
    items = [("idx", j) for j in range(violation["chunk_start"],
                                       violation["run_index"])]
    t0 = time.time()

    def attempt(pre):
        kind, res = run_in_fork(_seq_job, (prop, tier, base, pre, main))
        if kind != "ok":
            return None
        out = res[0]
        v = out.get("violation")
        if v is not None and v["clause"] == clause and not out.get("error"):
            return res
        return None

    best = attempt(items)
    if best is None:
        return None
    n = 2
    while len(items) >= 1 and time.time() - t0 < budget_s:
        size = max(1, len(items) // n)
        removed = False
        for k in range(0, len(items), size):
            cand = items[:k] + items[k + size:]
            r = attempt(cand)
            if r is not None:
                items, best, removed = cand, r, True
                n = max(n - 1, 2)
                break
        if not removed:
            if size == 1:
                break
            n = min(len(items), n * 2)
    out, recs, desc, trec, srec = best
    return recs, out, desc, trec, srec


# ------------------------------------------------------------------ replay
def write_replay(engine, prop, tier, base, info, viol, sc, trace, minimised,
                 prelude=None, described=None):
    d = os.path.join(REPLAYS, prop)
    os.makedirs(d, exist_ok=True)
    path = os.path.join(d, "%016x.json" % info["run_seed"])
    with open(path, "w") as f:
        json.dump({
            "property": prop, "engine": engine.name, "tier": tier,
            "base_seed": base, "run_index": info.get("run_index"),
            "run_seed": info["run_seed"],
            "clause": viol["clause"], "signature": viol.get("signature"),
            "detail": viol.get("detail"),
            "minimised": minimised,
            "prelude": [{"scenario_tape": t, "schedule_tape": s_}
                        for t, s_ in (prelude or [])],
            "prelude_note": "runs executed earlier in the same process; the "
                            "violation depends on state they leave behind"
                            if prelude else None,
            "scenario_tape": info["scen_tape"],
            "schedule_tape": info["sched_tape"],
            "scenario": described if described is not None
            else engine.describe(sc),
            "trace": trace,
        }, f, indent=1, default=repr)
    return path


def replay_file(engine, path, verbose=True):
    with open(path) as f:
        r = json.load(f)
    prop = r["property"]
    for pre in r.get("prelude") or []:
        run_one(engine, prop, r.get("tier", "quick"),
                tapes=(pre["scenario_tape"], pre["schedule_tape"]))
    out, sc, trec, srec = run_one(
        engine, prop, r.get("tier", "quick"),
        tapes=(r["scenario_tape"], r["schedule_tape"]), want_trace=True)
    return r, out, sc


def confirm_in_fresh_process(prop, path):
    """Re-run a replay file in a fresh interpreter; True iff it reproduces
    the same clause."""
    cmd = [sys.executable, os.path.join(VERIF, "check"), prop, "--replay",
           path, "--expect-same"]
    env = dict(os.environ)
    env["PYTHONHASHSEED"] = "0"
    try:
        p = subprocess.run(cmd, env=env, capture_output=True, timeout=300,
                           text=True)
    except subprocess.TimeoutExpired:
        return False
    return p.returncode == 1 and "REPRODUCED" in p.stdout


# ---------------------------------------------------------------- evidence
def write_evidence(engine, prop, tier, base, total, nviol, extra=None):
    os.makedirs(EVIDENCE, exist_ok=True)
    wall = total.get("wall_s", 0.0) or 1e-9
    runs = total["runs"]
    cov = {
        "evaluations": runs,
        "distinct_nontrivial": len(total["nontrivial_sigs"]),
        "rule": engine.rule(prop),
        "samples": total["samples"] or [{"note": "no non-trivial sample"}],
        "distinct_interleavings_or_histories": len(total["sigs"]),
        "distinct_abstract_states": len(total.get("states", ())),
        "runs_per_hour": int(runs / wall * 3600),
        "seeds": {"base": base, "derivation":
                  "run_seed = blake2b(base, engine, property, run_index)",
                  "run_indices": "chunks of consecutive indices from 0; "
                                 "%d complete chunk(s), %d cut short by the "
                                 "time budget" % (
                                     total.get("chunks_complete", 0),
                                     total.get("chunks_partial", 0))},
        "scheduler_steps": total["steps"],
        "simulated_seconds": round(total["simtime"], 3),
        "faults_fired": dict(sorted(total["faults"].items())),
        "probes_hit": dict(sorted(total["probes"].items())),
        "scenario_shapes": dict(sorted(total["shapes"].items())),
        "components": engine.components(),
        "known_findings_hit": total["known"],
        "exhaustive": False,
    }
    if extra:
        cov.update(extra)
    ev = {
        "property_id": prop, "tier": tier, "seed": base,
        "level": engine.level(prop), "coverage": cov,
        "assumptions": engine.assumptions(prop),
        "wall_s": round(wall, 3), "violations": nviol,
    }
    path = os.path.join(EVIDENCE, prop + ".json")
    tmp = path + ".tmp"
    with open(tmp, "w") as f:
        json.dump(ev, f, indent=1, default=repr)
    os.replace(tmp, path)
    return path

"""Generic tape minimiser.

A candidate (scenario tape, schedule tape) is accepted only if the run still
violates the *same property clause*.  Because 0 is the simplest alternative
for every draw and an exhausted tape yields 0, the passes are: truncate,
delete spans, zero spans, lower single values.  Schedule tape first tried
empty (= "run threads in creation order, no timer, no stall, no pre-emption").
"""
import time


def _same(out, clause):
    v = out.get("violation")
    return v is not None and v["clause"] == clause and not out.get("error")


def shrink(test, scen, sched, clause, budget_s=25.0, max_tests=1500):
    """test(scen, sched) -> outcome.  Returns (scen, sched, ntests)."""
    t0 = time.time()
    n = [0]

    def ok(a, b):
        if time.time() - t0 > budget_s or n[0] >= max_tests:
            return False
        n[0] += 1
        try:
            return _same(test(a, b), clause)
        except Exception:
            return False

    def strip(t):
        t = list(t)
        while t and t[-1] == 0:
            t.pop()
        return t

    scen, sched = strip(scen), strip(sched)

    def pass_tape(cur, other, is_scen):
        def try_(c):
            c = strip(c)
            if c == cur[0]:
                return False
            a, b = (c, other[0]) if is_scen else (other[0], c)
            if ok(a, b):
                cur[0] = c
                return True
            if is_scen and other[0] and ok(c, []):
                cur[0] = c
                other[0] = []
                return True
            return False

        improved = False
        # truncate
        L = len(cur[0])
        for num in (0, 1, 2, 4, 6, 7):
            if L * num // 8 < L and try_(cur[0][:L * num // 8]):
                improved = True
                break
        # delete / zero spans
        size = max(1, len(cur[0]) // 2)
        while size >= 1 and time.time() - t0 < budget_s:
            i = 0
            while i < len(cur[0]):
                c = cur[0]
                if try_(c[:i] + c[i + size:]):
                    improved = True
                    continue
                if any(c[i:i + size]) and try_(
                        c[:i] + [0] * len(c[i:i + size]) + c[i + size:]):
                    improved = True
                i += size
            size //= 2
        # lower single values
        i = 0
        while i < len(cur[0]) and time.time() - t0 < budget_s:
            v = cur[0][i]
            if v > 0:
                c = cur[0]
                for nv in (0, v // 2, v - 1):
                    if nv < v and try_(c[:i] + [nv] + c[i + 1:]):
                        improved = True
                        break
            i += 1
        return improved

    s_ref, d_ref = [scen], [sched]
    # 1. simplest schedule outright?
    if d_ref[0] and ok(s_ref[0], []):
        d_ref[0] = []
    for _ in range(4):
        a = pass_tape(s_ref, d_ref, True)
        b = False
        if d_ref[0] and len(d_ref[0]) <= 4000:
            b = pass_tape(d_ref, s_ref, False)
        elif d_ref[0]:
            # long schedule tapes: truncation + coarse zeroing only
            c = d_ref[0]
            for cut in (len(c) // 2, len(c) // 4, len(c) // 8):
                if ok(s_ref[0], c[:cut]):
                    d_ref[0] = strip(c[:cut])
                    b = True
                    break
        if not (a or b) or time.time() - t0 > budget_s:
            break
    return s_ref[0], d_ref[0], n[0]

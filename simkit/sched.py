"""Deterministic scheduler: real OS threads, one baton, virtual clock.

Every simulated thread is a real daemon thread that is parked on its own lock
and released one at a time.  At each *yield point* the running thread makes
the scheduling decision itself (from the schedule tape), releases the chosen
thread and parks.  The OS scheduler / GIL therefore never decides who runs.

Time is virtual: `sim.now` only moves when a pending deadline fires.
"""
import _thread
import os
import sys
import threading
import traceback
import zlib

NEW, RUNNABLE, BLOCKED, DONE = "NEW", "RUNNABLE", "BLOCKED", "DONE"

MASK64 = (1 << 64) - 1
_VERIF_DIR = os.path.dirname(os.path.dirname(os.path.abspath(__file__)))

# the simulation currently installed in this process (at most one)
CURRENT = None


class SimAbort(BaseException):
    """Unwinds a simulated thread when the run is being torn down."""


class SimThread:
    __slots__ = (
        "tid", "role", "lock", "parked", "state", "deadline", "block_kind",
        "block_obj", "woke", "pending_exc", "prio", "carrier", "exc",
        "exc_tb", "harness_exc", "owner", "sim", "nsteps", "daemon",
        "zombie", "slept",
    )

    def __init__(self, sim, tid, role, owner=None):
        self.sim = sim
        self.tid = tid
        self.role = role
        self.lock = _thread.allocate_lock()
        self.lock.acquire()
        self.parked = True  # born parked: the lock is held until first release
        self.state = NEW
        self.deadline = None
        self.block_kind = None
        self.block_obj = None
        self.woke = None
        self.pending_exc = None
        self.prio = 0
        self.carrier = None
        self.exc = None
        self.exc_tb = None
        self.harness_exc = False
        # no strong reference to the Thread object: a finished worker must be
        # collectable while the run goes on (its finaliser is part of the
        # behaviour under test)
        self.owner = None
        self.daemon = False
        self.nsteps = 0
        # CPython <= 3.12 (bpo-45274): a KeyboardInterrupt raised inside
        # Thread.join() marks the joined, still running thread as stopped
        self.zombie = False
        # has this thread ever waited in the program's own time.sleep()?
        self.slept = False

    def __repr__(self):
        return "<SimThread %s %s>" % (self.role, self.state)


_STATE_ID = {NEW: 0, RUNNABLE: 1, BLOCKED: 2, DONE: 3}
_KIND_ID = {None: 0, "get": 1, "join": 2, "sleep": 3, "stall": 4, "ext": 5,
            "putwait": 6, "lock": 7, "event": 8, "cond": 9, "sem": 10}

_OPID = {}


def _opid(op):
    v = _OPID.get(op)
    if v is None:
        v = _OPID[op] = zlib.crc32(op.encode())
    return v


# exception types that simkit raises on purpose into simulated code
def _intended_types():
    import queue
    t = [queue.Empty, queue.Full, KeyboardInterrupt, RuntimeError, OSError]
    try:
        from auditok.exceptions import AudioIOError
        t.append(AudioIOError)
    except Exception:  # pragma: no cover
        pass
    return tuple(t)


class Sim:
    """One simulated execution.

    cfg keys (all optional):
      policy      'random' | 'pct' | 'starve' | 'rr'
      p_timer     (num, den)   chance that the earliest timer fires before a
                               runnable thread runs
      p_preempt   (num, den)   chance of a switch at a traced source line
      pct_points  [step, ...]  PCT priority change points
      starve      role prefix not scheduled while others are runnable ...
      starve_k    ... for this many decisions
      fair_after  steps after which scheduling is fair round-robin
      budget      further steps allowed once fair (bounded liveness)
      trace_files set of filenames pre-emptible at line granularity
      keep_log    keep the full event log (default True)
    """

    def __init__(self, tape, cfg=None):
        cfg = cfg or {}
        self.tape = tape
        self.policy = cfg.get("policy", "random")
        self.p_timer = tuple(cfg.get("p_timer", (0, 1)))
        self.p_preempt = tuple(cfg.get("p_preempt", (0, 1)))
        self.pct_points = set(cfg.get("pct_points", ()))
        self.starve = cfg.get("starve")
        self.starve_k = cfg.get("starve_k", 0)
        self.fair_after = cfg.get("fair_after", 30000)
        self.budget = cfg.get("budget", 30000)
        self.trace_files = frozenset(cfg.get("trace_files", ()))
        self.keep_log = cfg.get("keep_log", True)
        self.epoch = cfg.get("epoch", 1_000_000_000.0)

        self.now = 0.0
        self.threads = []
        self.by_ident = {}
        self.cur = None
        self.steps = 0
        self.seq = 0
        self.log = []
        self.sig = 0
        self.switches = 0
        self.finished = False
        self.aborting = False
        self.failure = None  # (kind, detail)
        self.harness_error = None
        self.done_event = threading.Event()
        self.timers = []  # (deadline, n, callback)
        self._timer_n = 0
        self.triggers = {}  # op -> [trigger dict]
        self.ext_fired = set()
        self.counters = {}  # fault / probe counters
        self.role_counts = {}
        self.rr_last = -1
        self.decisions = 0
        self.fair = False
        self.intended = _intended_types()
        self.on_quiescent = None
        self.state_hashes = set()
        self.inflight = 0
        self.boost = None  # [SimThread, remaining decisions]
        self.sleep_interrupt = None
        self.sigint_handler = None   # installed through the signal seam
        self.burst_left = 0
        self.p_gc = tuple(cfg.get("p_gc", (0, 1)))
        self.in_gc = False
        self.stall_timeouts = 0
        self.stall_timeout_cap = cfg.get("stall_timeout_cap", 60)

    # ------------------------------------------------------------------ util
    def count(self, key, n=1):
        self.counters[key] = self.counters.get(key, 0) + n

    def me(self):
        return self.by_ident.get(_thread.get_ident())

    def active(self):
        """True iff the calling thread is a simulated thread of a live run
        that has not ended yet.  A carrier that has given the baton away for
        good (state DONE) may still run finalisers while it winds down - a
        worker object's last reference can die with the carrier's frame -
        and those must not touch the scheduler."""
        if self.finished:
            return False
        st = self.by_ident.get(_thread.get_ident())
        return st is not None and st.state != DONE

    def role_for(self, owner):
        name = type(owner).__name__
        k = self.role_counts.get(name, 0)
        self.role_counts[name] = k + 1
        return "%s#%d" % (name, k)

    # --------------------------------------------------------------- logging
    def note(self, op, detail=None, me=None):
        """Log an event without yielding.  Fires triggers."""
        if me is None:
            me = self.me()
        role = me.role if me is not None else "-"
        self.seq += 1
        if self.keep_log:
            self.log.append((self.seq, role, op, detail))
        tid = me.tid if me is not None else 99
        self.sig = ((self.sig * 1000003) ^ (tid * 8191 + _opid(op))) & MASK64
        trigs = self.triggers.get(op)
        if trigs:
            for tr in list(trigs):
                if tr["role"] is not None and not role.startswith(tr["role"]):
                    continue
                tr["count"] -= 1
                if tr["count"] <= 0:
                    trigs.remove(tr)
                    tr["fn"]()

    def add_trigger(self, op, count, fn, role=None):
        self.triggers.setdefault(op, []).append(
            {"count": count, "fn": fn, "role": role}
        )

    # ------------------------------------------------------------- threading
    def spawn(self, role, fn, owner=None):
        st = SimThread(self, len(self.threads), role, owner)
        self.threads.append(st)
        if self.policy == "pct":
            st.prio = 1 + self.tape.draw(1000)
        # the carrier must not keep the thread's function (a bound method of
        # the program's Thread object) alive while it winds down AFTER having
        # handed the baton on: whether a finaliser of that object then runs
        # in the program's thread or in the dying carrier would depend on OS
        # timing.  The reference is dropped while the baton is still held.
        box = [fn]
        del fn

        def boot():
            self.by_ident[_thread.get_ident()] = st
            st.lock.acquire()
            try:
                if self.aborting:
                    raise SimAbort()
                if self.p_preempt[0] > 0 and self.trace_files:
                    sys.settrace(self._tracer)
                box.pop()()
            except SimAbort:
                pass
            except BaseException as e:  # escaped from the simulated code
                st.exc = e
                st.exc_tb = traceback.format_exc()
                tb = e.__traceback__
                last = None
                while tb is not None:
                    last = tb
                    tb = tb.tb_next
                if last is not None:
                    fn_ = last.tb_frame.f_code.co_filename
                    if fn_.startswith(_VERIF_DIR) and not isinstance(
                        e, self.intended
                    ) and not getattr(e, "_sim_passthrough", False):
                        st.harness_exc = True
                        if self.harness_error is None:
                            self.harness_error = st.exc_tb
            finally:
                sys.settrace(None)
            st.state = DONE
            if self.aborting or self.finished:
                return
            try:
                self.note("exit", None, me=st)
                for o in self.threads:
                    if o.state == BLOCKED and o.block_kind == "join" \
                            and o.block_obj is st:
                        self._wake(o, "notified")
                self._switch(st, final=True)
            except SimAbort:
                pass
            except BaseException:
                if self.harness_error is None:
                    self.harness_error = traceback.format_exc()
                self._teardown()

        st.carrier = threading.Thread(
            target=boot, daemon=True, name="sim-" + role
        )
        st.state = RUNNABLE
        _ORIG_START(st.carrier)
        # the carrier is a real daemon thread, but simulated code asking
        # `current_thread().daemon` (e.g. Thread.__init__ inheriting the
        # flag) must see the SIMULATED thread's flag: main is not a daemon
        st.carrier._daemonic = False
        return st

    def _wake(self, t, how):
        if t.block_kind == "get" and t.block_obj is not None:
            try:
                t.block_obj.waiters.remove(t)
            except ValueError:
                pass
        elif t.block_kind in ("cond", "sem", "lock", "event") \
                and t.block_obj is not None:
            try:
                t.block_obj.waiters.remove(t)
            except (ValueError, AttributeError):
                pass
        elif t.block_kind == "putwait" and t.block_obj is not None:
            try:
                t.block_obj.put_waiters.remove(t)
            except ValueError:
                pass
        t.state = RUNNABLE
        t.deadline = None
        t.block_kind = None
        t.block_obj = None
        t.woke = how

    # ------------------------------------------------------------- decisions
    def _timer_chance(self):
        if self.fair:
            return self.decisions % 16 == 0
        return self.tape.chance(*self.p_timer)

    def _earliest_timer(self):
        best = None
        for t in self.threads:
            if t.state == BLOCKED and t.deadline is not None:
                k = (t.deadline, 0, t.tid)
                if best is None or k < best[0]:
                    best = (k, t)
        if self.timers:
            d, n, cb = min(self.timers, key=lambda x: (x[0], x[1]))
            k = (d, 1, n)
            if best is None or k < best[0]:
                best = (k, (d, n, cb))
        return best

    def _bound_stalls(self):
        """Keeps runs bounded: a simulator-injected stall lets at most
        `stall_timeout_cap` queue-wait timeouts expire; then it ends (its
        deadline is pulled in to now).  'Arbitrarily slow' is preserved
        qualitatively - dozens of consecutive timeouts - without letting a
        30 s stall against 10 ms timeouts cost tens of thousands of steps."""
        stalled = [t for t in self.threads
                   if t.state == BLOCKED and t.block_kind == "stall"]
        if not stalled:
            return
        self.stall_timeouts += 1
        if self.stall_timeouts > self.stall_timeout_cap:
            for t in stalled:
                if t.deadline is not None and t.deadline > self.now:
                    t.deadline = self.now
            self.stall_timeouts = 0
            self.count("stall_cut_short")

    def _pick(self):
        while True:
            run = [t for t in self.threads if t.state == RUNNABLE]
            tm = self._earliest_timer()
            if tm is not None and (not run or self._timer_chance()):
                (d, _, _), obj = tm
                if d > self.now:
                    self.now = d
                if isinstance(obj, SimThread):
                    if run:
                        self.count("timer_fired_early")
                    if obj.block_kind == "get":
                        self.count("timeout_fired")
                        self._bound_stalls()
                    elif obj.block_kind == "stall":
                        self.stall_timeouts = 0
                    self._wake(obj, "timeout")
                else:
                    self.timers.remove(obj)
                    obj[2]()
                continue
            if not run:
                if self.on_quiescent is not None:
                    q = self.on_quiescent
                    self.on_quiescent = None
                    q()
                    continue
                return None
            return self._choose(run)

    def _choose(self, run):
        self.decisions += 1
        if self.boost is not None:
            bt, k = self.boost
            if k <= 0 or bt.state == DONE:
                self.boost = None
            elif bt in run:
                self.boost[1] = k - 1
                return bt
        if len(run) == 1:
            return run[0]
        if self.fair or self.policy == "rr":
            for t in run:
                if t.tid > self.rr_last:
                    self.rr_last = t.tid
                    return t
            self.rr_last = run[0].tid
            return run[0]
        if self.policy == "pct":
            return max(run, key=lambda t: (t.prio, -t.tid))
        if self.policy == "burst":
            # coarse-grained interleavings (time slices): the running thread
            # keeps the baton for a drawn number of decisions
            cur = self.cur
            if self.burst_left > 0 and cur is not None and cur in run:
                self.burst_left -= 1
                return cur
            self.burst_left = (1, 3, 10, 40, 200)[self.tape.draw(5)]
            return run[self.tape.draw(len(run))]
        if self.policy == "starve" and self.decisions <= self.starve_k:
            rest = [t for t in run if not t.role.startswith(self.starve)]
            if rest and len(rest) < len(run):
                self.count("starve")
                run = rest
                if len(run) == 1:
                    return run[0]
        return run[self.tape.draw(len(run))]

    def _switch(self, me, final=False):
        self.steps += 1
        if not self.fair and self.steps > self.fair_after:
            self.fair = True
        if self.steps > self.fair_after + self.budget:
            self._fail("nontermination", self._thread_states(), final)
            return
        if self.policy == "pct" and self.steps in self.pct_points \
                and me is not None:
            me.prio = -self.steps
            self.count("pct_change")
        nxt = self._pick()
        if nxt is None:
            if all(t.state == DONE for t in self.threads):
                self.finished = True
                self.done_event.set()
            else:
                self._fail("deadlock", self._thread_states(), final)
            return
        if nxt is me and not final:
            return
        self.switches += 1
        # abstract state: per-thread (state, what it blocks on) + messages in
        # flight capped at 3
        ah = min(self.inflight, 3)
        for t in self.threads:
            ah = (ah * 31 + _STATE_ID[t.state] * 7
                  + _KIND_ID.get(t.block_kind, 6)) & MASK64
        self.state_hashes.add(ah)
        if self.inflight > 0:
            self.counters["switch_inflight"] = \
                self.counters.get("switch_inflight", 0) + 1
        self.cur = nxt
        if not final:
            me.parked = True
        was_parked = nxt.parked
        nxt.parked = False
        try:
            nxt.lock.release()
        except RuntimeError:
            # must never happen (a thread is released exactly once per park):
            # leave as much context as possible in the harness error
            self.harness_error = (
                "baton error: releasing %r whose lock is not held "
                "(was_parked=%r, me=%r, final=%r, steps=%d, cur=%r)\n"
                "threads=%r\nlast events=%r" % (
                    nxt, was_parked, me, final, self.steps, self.cur,
                    [(t.role, t.state, t.block_kind, t.parked)
                     for t in self.threads], self.log[-25:]))
            self._teardown()
            if not final:
                raise SimAbort()
            return
        if final:
            return
        me.lock.acquire()
        if self.aborting:
            raise SimAbort()

    def _thread_states(self):
        return [
            (t.role, t.state, t.block_kind,
             getattr(t.block_obj, "role", None)
             or getattr(t.block_obj, "name", None))
            for t in self.threads
        ]

    def _teardown(self):
        self.aborting = True
        self.finished = True
        self.done_event.set()
        cur = self.me()
        for t in self.threads:
            if t is not cur and t.parked:
                t.parked = False
                try:
                    t.lock.release()
                except RuntimeError:
                    pass

    def _fail(self, kind, detail, final=False):
        if self.failure is None:
            self.failure = (kind, detail)
        self._teardown()
        if not final:
            raise SimAbort()

    # ------------------------------------------------------ yield primitives
    def step(self, op, detail=None):
        """Yield point.  No-op outside the simulation."""
        me = self.by_ident.get(_thread.get_ident())
        if me is None or self.finished or me.state == DONE:
            if self.aborting and me is not None and me.state != DONE:
                raise SimAbort()
            return False
        if self.aborting:
            raise SimAbort()
        me.nsteps += 1
        if self.p_gc[0] and not self.in_gc and self.tape.chance(*self.p_gc):
            # fault kind `gc`: a full garbage collection (and whatever
            # finalisers it runs) lands in this thread at this yield point
            self.in_gc = True
            try:
                self.count("gc")
                import gc as _gc
                _gc.collect()
            finally:
                self.in_gc = False
        self.note(op, detail, me=me)
        self._switch(me)
        if me.pending_exc is not None:
            self._run_pending(me)
        return True

    def block(self, kind, obj=None, timeout=None):
        me = self.me()
        me.state = BLOCKED
        me.block_kind = kind
        me.block_obj = obj
        me.deadline = None if timeout is None else self.now + max(0.0, timeout)
        me.woke = None
        self._switch(me)
        w = me.woke
        me.woke = None
        if me.pending_exc is not None:
            self._run_pending(me)
        return w

    @staticmethod
    def _run_pending(me):
        """A simulated signal arrives in this thread: the default SIGINT
        action is an exception instance (KeyboardInterrupt) raised here; a
        handler the program installed (signal seam) is a callable run here -
        it may raise as well."""
        e = me.pending_exc
        me.pending_exc = None
        if isinstance(e, BaseException):
            raise e
        e()

    # block kinds in which the main thread of a program that does NOT wait
    # in time.sleep() can be reached by a simulated Ctrl-C
    _WAITS = ("join", "event", "cond", "get", "sem", "lock")
    # Delivery in those waits (and the bpo-45274 model in _sim_join) was
    # built in round j and WITHDRAWN after the third review (DESIGN §18): a
    # pending Ctrl-C could then land inside start_all() or inside the
    # program's own shutdown sequence - places where the pinned tree is
    # never interrupted either.  The simulated Ctrl-C is delivered in the
    # program's own time.sleep() only.
    CTRL_C_IN_WAITS = False

    def _sig_payload(self, exc):
        import signal as _signal
        h = self.sigint_handler
        if h is None or h is _signal.default_int_handler \
                or h == _signal.SIG_DFL:
            return exc
        if h == _signal.SIG_IGN:
            return lambda: None
        return lambda: h(_signal.SIGINT, None)

    def sleep(self, dur, interruptible=False):
        """Virtual sleep.  interruptible=True only for the program's own
        time.sleep (where a simulated Ctrl-C may land); stalls injected by
        the simulator are not interruptible."""
        if not self.active():
            return
        if self.aborting:
            raise SimAbort()
        me = self.me()
        if not interruptible:
            self.note("stall", round(dur, 6))
            self.block("stall", None, dur)
            return
        me.slept = True
        if self.sleep_interrupt is not None and self.sleep_interrupt[0] is me:
            me.pending_exc = self._sig_payload(self.sleep_interrupt[1])
            self.sleep_interrupt = None
            self.note("interrupt.delivered", "at-sleep-entry")
            self._run_pending(me)      # raises, or runs the handler
        self.note("sleep", round(dur, 6))
        self.block("sleep", None, dur)

    def after(self, delay, fn):
        self._timer_n += 1
        self.timers.append((self.now + delay, self._timer_n, fn))

    def wait_external(self, name):
        if name in self.ext_fired:
            self.note("ext.already", name)
            return
        self.note("ext.wait", name)
        self.block("ext", name)

    def fire_external(self, name, why="trigger"):
        if name in self.ext_fired:
            return
        self.ext_fired.add(name)
        self.note("ext.fire", (name, why), me=self.me())
        for t in self.threads:
            if t.state == BLOCKED and t.block_kind == "ext" \
                    and t.block_obj == name:
                self._wake(t, "notified")

    def interrupt(self, st, exc):
        """Deliver `exc` to simulated thread `st` while it sleeps: now if it
        is sleeping, else on entry to its next sleep()."""
        # (which action the signal takes - default or an installed handler -
        # is decided when it is DELIVERED, not when it is requested)
        if st.state == BLOCKED and (
                st.block_kind in ("sleep", "ext")
                or (self.CTRL_C_IN_WAITS and st.block_kind in self._WAITS
                    and not st.slept)):
            st.pending_exc = self._sig_payload(exc)
            self.note("interrupt.delivered", "during-" + (
                "sleep" if st.block_kind in ("sleep", "ext")
                else st.block_kind))
            self._wake(st, "interrupt")
        else:
            self.sleep_interrupt = (st, exc)

    def process_exit_seq(self):
        """Event sequence number at which a real process would exit: when
        the last non-daemon thread (main included) has ended.  Whatever a
        daemon thread does after that never happens in reality."""
        last = 0
        roles = {t.role for t in self.threads if not t.daemon}
        for e in self.log:
            if e[2] == "exit" and e[1] in roles:
                last = e[0]
        return last

    def daemon_roles(self):
        return {t.role for t in self.threads if t.daemon}

    # ----------------------------------------------------------- pre-emption
    def _tracer(self, frame, event, arg):
        if frame.f_code.co_filename in self.trace_files:
            return self._line_tracer
        return None

    def _line_tracer(self, frame, event, arg):
        if event == "line" and not self.finished and not self.aborting:
            self.count("line_events")
            if not self.fair and self.tape.chance(*self.p_preempt):
                self.count("preempt")
                self.step("preempt", frame.f_lineno)
        return self._line_tracer

    # ------------------------------------------------------------------- run
    def run(self, mainfn, wall=300.0):
        global CURRENT
        if CURRENT is not None and not CURRENT.finished:
            raise RuntimeError("nested simulation")
        if self.p_gc[0]:
            # injected collections must only see this run's garbage
            import gc as _gc
            _gc.collect()
        CURRENT = self
        m = self.spawn("main", mainfn)
        self.cur = m
        m.parked = False
        # wait until the carrier has parked itself: lock.release() is safe
        # regardless (it was acquired at construction)
        m.lock.release()
        ok = self.done_event.wait(wall)
        if not ok:
            import faulthandler
            self.harness_error = "wall-clock watchdog (%.0fs)" % wall
            try:
                faulthandler.dump_traceback(file=sys.stderr)
            except Exception:
                pass
            self._teardown()
        for t in self.threads:
            if t.carrier is not None:
                t.carrier.join(2.0)
        self.finished = True
        CURRENT = None
        return self.failure


# ---------------------------------------------------------------------------
# process-wide Thread patches (pass-through for non-simulated threads)

_ORIG_START = threading.Thread.start
_ORIG_JOIN = threading.Thread.join
_ORIG_IS_ALIVE = threading.Thread.is_alive


def _sim_start(self):
    sim = CURRENT
    if sim is not None and sim.active():
        if self.__dict__.get("_sim_thread") is not None:
            raise RuntimeError("threads can only be started once")
        role = sim.role_for(self)
        inbox = self.__dict__.get("_inbox")
        if inbox is not None and hasattr(inbox, "name"):
            inbox.name = role
        st = sim.spawn(role, self.run, owner=self)
        try:
            st.daemon = bool(self.daemon)
        except Exception:
            st.daemon = False
        st.carrier._daemonic = st.daemon
        self._sim_thread = st
        # what a started thread looks like from outside
        try:
            self._ident = 1_000_000 + st.tid
            self._started.set()
        except Exception:
            pass
        sim.step("start", role)
        return None
    return _ORIG_START(self)


def _sim_join(self, timeout=None):
    st = self.__dict__.get("_sim_thread")
    if st is None:
        sim = CURRENT
        if sim is not None and sim.active():
            # joining a worker that was never started
            raise RuntimeError("cannot join thread before it is started")
        return _ORIG_JOIN(self, timeout)
    sim = st.sim
    if not sim.active():
        return None
    if st is sim.me():
        raise RuntimeError("cannot join current thread")
    sim.step("join", st.role)
    if st.state == DONE or st.zombie:
        return None
    me = sim.me()

    def interrupted_in_join():
        # CPython <= 3.12, bpo-45274: an exception raised by a signal
        # handler inside Thread.join() makes _wait_for_tstate_lock() release
        # the tstate lock of the RUNNING thread and mark it as stopped
        if sys.version_info < (3, 13) and st.state != DONE:
            st.zombie = True
            sim.note("join.bpo45274", st.role)
            sim.count("join_interrupted_marks_thread_stopped")

    if sim.CTRL_C_IN_WAITS and me is not None and not me.slept \
            and sim.sleep_interrupt is not None \
            and sim.sleep_interrupt[0] is me:
        # a program that waits by joining (never slept): a pending Ctrl-C
        # lands here
        me.pending_exc = sim._sig_payload(sim.sleep_interrupt[1])
        sim.sleep_interrupt = None
        sim.note("interrupt.delivered", "at-join-entry")
        try:
            sim._run_pending(me)
        except BaseException:
            interrupted_in_join()
            raise
    deadline = None if timeout is None else sim.now + max(0.0, timeout)
    first = True
    while st.state != DONE:
        rem = None if deadline is None else max(0.0, deadline - sim.now)
        if not first and rem is not None and rem <= 0:
            break
        first = False
        try:
            how = sim.block("join", st, rem)
        except SimAbort:
            raise
        except BaseException:
            interrupted_in_join()
            raise
        if how != "interrupt":
            break      # finished or timed out
        # a handler ran and returned: the wait goes on (PEP 475)
    return None


def _sim_is_alive(self):
    st = self.__dict__.get("_sim_thread")
    if st is None:
        return _ORIG_IS_ALIVE(self)
    sim = st.sim
    if sim.active():
        sim.step("is_alive", st.role)
    return st.state != DONE and not st.zombie


def install_thread_patches():
    threading.Thread.start = _sim_start
    threading.Thread.join = _sim_join
    threading.Thread.is_alive = _sim_is_alive

"""Tapes: the only source of choices in a simulated run.

A Tape hands out integers.  In *search* mode they come from a PRNG seeded by
the run seed and are recorded; in *replay* mode they are popped from a
recorded list (value % n; an exhausted tape yields 0).  0 is by construction
the simplest alternative everywhere (first runnable thread, no timer, no
stall, no pre-emption, shortest stream, ...), which is what makes the generic
shrinker in shrink.py work.

Logging never draws.
"""
import hashlib
import random

MASK64 = (1 << 64) - 1


def mix(*parts):
    """Fixed 64-bit mix of ints/strings (independent of PYTHONHASHSEED)."""
    h = hashlib.blake2b(digest_size=8)
    for p in parts:
        h.update(repr(p).encode())
        h.update(b"\x00")
    return int.from_bytes(h.digest(), "big")


class Tape:
    __slots__ = ("rng", "values", "pos", "record", "replay", "limit")

    def __init__(self, seed=None, values=None, limit=2_000_000):
        self.replay = values is not None
        self.values = list(values) if values is not None else None
        self.rng = random.Random(seed) if values is None else None
        self.pos = 0
        self.record = []
        self.limit = limit

    def draw(self, n):
        """int in [0, n)."""
        if n <= 1:
            return 0
        if self.replay:
            if self.pos < len(self.values):
                v = self.values[self.pos] % n
            else:
                v = 0
            self.pos += 1
        else:
            v = self.rng.randrange(n)
        if len(self.record) < self.limit:
            self.record.append(v)
        return v

    def reseed(self, seed):
        """Search mode: continue drawing from another PRNG (used to share a
        base scenario between the runs of one enumeration group).  Replay
        mode: no-op, the values are on the tape."""
        if not self.replay:
            self.rng = random.Random(seed)

    def force(self, n, v):
        """Search mode: record the given value (enumeration index) as if it
        had been drawn.  Replay mode: an ordinary draw."""
        if self.replay:
            return self.draw(n)
        v = v % n if n > 0 else 0
        if len(self.record) < self.limit:
            self.record.append(v)
        return v

    def chance(self, num, den):
        """True with probability num/den; a 0 on the tape means False."""
        if num <= 0:
            return False
        return self.draw(den) >= den - num

    def choice(self, seq):
        return seq[self.draw(len(seq))]

    def weighted(self, pairs):
        """pairs = [(weight, value), ...]; first entry is the simplest."""
        total = sum(w for w, _ in pairs)
        v = self.draw(total)
        for w, val in pairs:
            if v < w:
                return val
            v -= w
        return pairs[-1][1]

    def between(self, lo, hi):
        """int in [lo, hi] (inclusive); lo is the simplest."""
        return lo + self.draw(hi - lo + 1)

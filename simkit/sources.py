"""Simulator-owned inputs: every read is a yield point, may stall for virtual
time, and is logged; the source knows what it served and whether it was read
again after having signalled end of stream."""
import os

from auditok.exceptions import AudioIOError
from auditok.io import AudioSource

from . import sched


def _sim():
    s = sched.CURRENT
    if s is not None and s.active():
        return s
    return None


class StallPlan:
    """Decides, from the schedule tape, whether a read stalls and for how
    long.  rate = (num, den); durations in virtual seconds."""

    def __init__(self, rate=(0, 1), durations=(0.05, 0.3, 1.0, 5.0)):
        self.rate = rate
        self.durations = durations

    def maybe_stall(self, s):
        if self.rate[0] > 0 and s.tape.chance(*self.rate):
            d = self.durations[s.tape.draw(len(self.durations))]
            s.count("stall")
            s.sleep(d)


class SimAudioSource(AudioSource):
    def __init__(self, data, sr, sw, ch, stall=None, label="src",
                 closed_error=None):
        super().__init__(sr, sw, ch)
        # what a read on a source that is not open raises: the library's
        # AudioIOError, or OSError (as e.g. its PyAudioSource does)
        self.closed_error = closed_error or AudioIOError
        self._data = data
        self._pos = 0
        self._open = False
        self._bps = sw * ch
        self.served = []          # chunks handed out, in order
        self.served_seq = []      # event sequence number of each chunk
        self.eof_returned = 0     # how many times None was returned
        self.reads = 0            # number of read() calls
        self.reads_after_eof = 0
        self.opens = 0
        self.closes = 0
        self.stall = stall
        self.label = label

    def is_open(self):
        return self._open

    def open(self):
        self._open = True
        self.opens += 1

    def close(self):
        self._open = False
        self.closes += 1

    @property
    def exhausted(self):
        return self.eof_returned > 0

    def served_bytes(self):
        return b"".join(self.served)

    def read(self, size):
        s = _sim()
        if s is not None:
            s.step("src.read", size)
            if self.stall is not None:
                self.stall.maybe_stall(s)
        if not self._open:
            raise self.closed_error("Stream is not open")
        self.reads += 1
        if self.eof_returned:
            self.reads_after_eof += 1
        if size is None or size < 0:
            chunk = self._data[self._pos:]
        else:
            chunk = self._data[self._pos:self._pos + size * self._bps]
        self._pos += len(chunk)
        if chunk:
            self.served.append(chunk)
            if s is not None:
                s.note("src.data", len(chunk))
                self.served_seq.append(s.seq)
            else:
                self.served_seq.append(0)
            return chunk
        self.eof_returned += 1
        if s is not None:
            s.note("src.eof", None)
        return None


class SimPipe:
    """Stands for sys.stdin.buffer: a blocking BufferedReader returns exactly
    n bytes unless the stream ends first."""

    def __init__(self, data, stall=None):
        self._data = data
        self._pos = 0
        self.served = []
        self.eof_returned = 0
        self.reads = 0
        self.stall = stall

    def served_bytes(self):
        # (also what was pulled through the file descriptor, if the program
        # asked for one)
        return self._data[:max(self._pos, self._fd_pos())]

    closed = False
    _fd = None
    _fd_base = 0

    def close(self):
        # closing the process's standard input: every later read fails, as
        # with a real file object
        self.closed = True

    def fileno(self):
        """A program may go below the file object (os.read, select, an
        unbuffered re-open of the descriptor): it gets a REAL descriptor of
        an anonymous in-memory file holding the rest of the stream (never the
        check's own standard input).  `auditok.io.open(fd, buffering=0)` is
        answered by the seam with a raw view that returns fragments, as a
        raw read of a pipe does."""
        if self._fd is None:
            fd = os.memfd_create("sim_stdin")
            rest = memoryview(self._data)[self._pos:]
            while len(rest):
                k = os.write(fd, rest[:1 << 20])
                rest = rest[k:]
            os.lseek(fd, 0, os.SEEK_SET)
            self._fd, self._fd_base = fd, self._pos
            # a private duplicate (same open file description, same offset):
            # the program may close the descriptor it was given
            self._fd_priv = os.dup(fd)
            FD_PIPES[fd] = self
        return self._fd

    _fd_priv = None

    def _fd_pos(self):
        if self._fd_priv is None:
            return 0
        try:
            return self._fd_base + os.lseek(self._fd_priv, 0, os.SEEK_CUR)
        except OSError:
            return 0

    def read(self, n=-1):
        if self.closed:
            raise ValueError("read of closed file")
        s = _sim()
        if s is not None:
            s.step("pipe.read", n)
            if self.stall is not None:
                self.stall.maybe_stall(s)
        self.reads += 1
        if n is None or n < 0:
            chunk = self._data[self._pos:]
        else:
            chunk = self._data[self._pos:self._pos + n]
        self._pos += len(chunk)
        if chunk:
            self.served.append(chunk)
            if s is not None:
                s.note("pipe.data", len(chunk))
        else:
            self.eof_returned += 1
            if s is not None:
                s.note("pipe.eof", None)
        return chunk


    def read1(self, n=-1):
        """BufferedReader.read1: at most one raw read - on a pipe that is
        whatever fragment happens to be available, possibly fewer than n
        bytes and not sample aligned.  Fragment sizes are drawn (fault kind
        `short_read`)."""
        if self.closed:
            raise ValueError("read of closed file")
        s = _sim()
        if s is not None:
            s.step("pipe.read1", n)
        self.reads += 1
        avail = len(self._data) - self._pos
        if n is None or n < 0:
            n = avail
        k = min(n, avail)
        if k > 1:
            frag = self.fragment(k)
            if frag < k:
                self.short_reads += 1
            k = frag
        chunk = self._data[self._pos:self._pos + k]
        self._pos += len(chunk)
        if chunk:
            self.served.append(chunk)
        else:
            self.eof_returned += 1
        return chunk

    def readinto(self, b):
        d = self.read(len(b))
        b[:len(d)] = d
        return len(d)

    def readinto1(self, b):
        d = self.read1(len(b))
        b[:len(d)] = d
        return len(d)

    def peek(self, n=0):
        return self._data[self._pos:self._pos + max(1, n)]

    def readable(self):
        return True

    def seekable(self):
        return False

    def isatty(self):
        return False

    short_reads = 0
    _frag_state = 0

    def fragment(self, k):
        # deterministic fragment sizes 1..k cycling through a fixed pattern
        pat = (3, 1, 7, 2, 5, 150, 1, 64)
        self._frag_state += 1
        return max(1, min(k, pat[self._frag_state % len(pat)]))


FD_PIPES = {}


def release_fds():
    for fd, p in list(FD_PIPES.items()):
        try:
            # the public number only if it still is OUR file (the program
            # may have closed it and the number may have been reused)
            st = os.fstat(fd)
            if p._fd_priv is not None and st.st_ino == os.fstat(
                    p._fd_priv).st_ino and st.st_dev == os.fstat(
                        p._fd_priv).st_dev:
                os.close(fd)
        except OSError:
            pass
        try:
            if p._fd_priv is not None:
                os.close(p._fd_priv)
        except OSError:
            pass
        p._fd = None
        p._fd_priv = None
    FD_PIPES.clear()


class RawPipeView:
    """What open(<descriptor of the simulated stdin>, "rb", buffering=0)
    returns: a FileIO-like object whose read() is ONE raw read - on a pipe
    whatever fragment is available (fault kind `short_read`)."""

    def __init__(self, pipe, closefd=True, raw=True):
        # raw=False: a buffered re-open (a BufferedReader of its own over
        # the descriptor): read(n) returns exactly n bytes unless the stream
        # ends, like sys.stdin.buffer; closing it closes the descriptor only
        # if closefd
        self._pipe, self._closefd, self.closed = pipe, closefd, False
        self._raw = raw
        self.name = pipe._fd
        self.mode = "rb"

    def read(self, n=-1):
        if self.closed:
            raise ValueError("I/O operation on closed file")
        if n is None or n < 0:
            return self.readall()
        if not self._raw:
            return self._pipe.read(n)
        return self._pipe.read1(n)

    def read1(self, n=-1):
        if self.closed:
            raise ValueError("I/O operation on closed file")
        return self._pipe.read1(n)

    def peek(self, n=0):
        return self._pipe.peek(n)

    def readall(self):
        return self._pipe.read(-1)

    def readinto(self, b):
        d = self.read(len(b))
        b[:len(d)] = d
        return len(d)

    def close(self):
        self.closed = True
        if self._closefd:
            self._pipe.close()

    def fileno(self):
        return self._pipe.fileno()

    def readable(self):
        return True

    def writable(self):
        return False

    def seekable(self):
        return False

    def isatty(self):
        return False

    def flush(self):
        pass

    def __enter__(self):
        return self

    def __exit__(self, *a):
        self.close()
        return False


class FakeStdin:
    def __init__(self, pipe):
        self.buffer = pipe

    encoding = "utf-8"
    errors = "strict"
    mode = "r"
    name = "<stdin>"

    @property
    def closed(self):
        return getattr(self.buffer, "closed", False)

    def isatty(self):
        return False

    def readable(self):
        return True

    def seekable(self):
        return False

    def writable(self):
        return False

    def fileno(self):
        return self.buffer.fileno()

    def close(self):
        self.buffer.close()

    def detach(self):
        return self.buffer

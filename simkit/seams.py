"""Seams: how auditok is bound to the simulator without editing it.

bind() rebinds, *by identity scan*, every module-level name of the auditok
modules that is one of the nondeterministic dependencies (queue.Queue, the
time / threading / queue / wave modules, datetime, NamedTemporaryFile, os in
workers, print/open builtins) to a simulated counterpart.  All counterparts
pass straight through to the real thing when the calling thread is not a
simulated thread of a live run, so oracles evaluated in the controller thread
see the unmodified library.
"""
import builtins
import datetime as _datetime
import os as _os
import queue as _queue
import sys
import tempfile as _tempfile
import threading as _threading
import time as _time
import types
import wave as _wave

from . import sched


def _sim():
    s = sched.CURRENT
    if s is not None and s.active():
        return s
    return None


def _real(fn, *a, **k):
    """Call through to a real object from inside a proxy; an exception it
    raises belongs to the simulated program, not to the harness."""
    try:
        return fn(*a, **k)
    except BaseException as e:
        try:
            e._sim_passthrough = True
        except Exception:
            pass
        raise


def msg_id(x):
    if isinstance(x, tuple) and x:
        return x[0] if isinstance(x[0], (int, str)) else "t"
    if isinstance(x, (bytes, bytearray)):
        return "b%d" % len(x)
    if isinstance(x, str):
        return x
    return type(x).__name__


# ----------------------------------------------------------------- SimQueue
class SimQueue:
    """FIFO queue whose blocking get() is scheduled by the simulator."""

    def __new__(cls, *a, **k):
        # created by code that does not run under the simulator (the
        # single-threaded engines, helper threads the library starts there):
        # the real primitive - a stand-in that never blocks would turn a
        # correct program into a busy loop or a race
        if _sim() is None:
            return _queue.Queue(*a, **k)
        return object.__new__(cls)

    _count = 0

    def __init__(self, maxsize=0):
        self.maxsize = maxsize
        self.items = []
        self.waiters = []
        self.put_waiters = []
        self.name = "q"
        self.unfinished = 0

    # -- non-blocking helpers
    def qsize(self):
        return len(self.items)

    def empty(self):
        return not self.items

    def full(self):
        return 0 < self.maxsize <= len(self.items)

    def task_done(self):
        self.unfinished = max(0, self.unfinished - 1)

    def put(self, item, block=True, timeout=None):
        s = _sim()
        if s is not None:
            s.step("put", (self.name, msg_id(item)))
        if self.full():
            if s is None or not block:
                raise _queue.Full
            deadline = None if timeout is None else s.now + timeout
            me = s.me()
            while self.full():
                self.put_waiters.append(me)
                how = s.block("putwait", self,
                              None if deadline is None else deadline - s.now)
                if me in self.put_waiters:
                    self.put_waiters.remove(me)
                if self.full() and how == "timeout":
                    s.note("put.full", self.name)
                    s.count("queue_full")
                    raise _queue.Full
        if s is not None:
            s.inflight += 1
            if isinstance(item, str) and len(self.items) >= 2:
                s.count("marker_behind_backlog")
        self.items.append(item)
        if s is not None and len(self.items) > s.counters.get(
                "max_backlog", 0):
            s.counters["max_backlog"] = len(self.items)
        self.unfinished += 1
        if s is not None and self.waiters:
            w = self.waiters[0]
            s._wake(w, "notified")

    def _pop(self, s):
        s.inflight -= 1
        item = self.items.pop(0)
        if self.put_waiters:
            s._wake(self.put_waiters[0], "notified")
        return item

    def put_nowait(self, item):
        return self.put(item, block=False)

    def get_nowait(self):
        return self.get(block=False)

    def get(self, block=True, timeout=None):
        s = _sim()
        if s is None:
            if self.items:
                return self.items.pop(0)
            raise _queue.Empty
        if not block:
            s.step("get_nowait", self.name)
            if self.items:
                return self._pop(s)
            raise _queue.Empty
        s.step("get", self.name)
        if self.items:
            return self._pop(s)
        if timeout is not None and timeout < 0:
            raise ValueError("'timeout' must be a non-negative number")
        deadline = None if timeout is None else s.now + timeout
        me = s.me()
        while True:
            self.waiters.append(me)
            remaining = None if deadline is None else deadline - s.now
            how = s.block("get", self, remaining)
            if self.items:
                if how == "timeout":
                    s.count("timeout_then_item_present")
                return self._pop(s)
            if how == "timeout":
                s.note("timeout", self.name)
                raise _queue.Empty
            # woken but somebody else took the item: wait again


# ------------------------------------------------------- shim: queue module
def _make_queue_shim():
    m = types.ModuleType("queue(sim)")
    m.__dict__.update(
        Queue=SimQueue, SimpleQueue=SimQueue, LifoQueue=SimQueue,
        Empty=_queue.Empty, Full=_queue.Full,
    )
    return m


# -------------------------------------------------------- shim: time module
class _TimeShim(types.ModuleType):
    def __getattr__(self, name):
        return getattr(_time, name)


def _make_time_shim():
    m = _TimeShim("time(sim)")

    def sleep(d):
        s = _sim()
        if s is None:
            return None  # never sleep for real in the controller
        s.sleep(d, interruptible=True)

    def now():
        s = _sim()
        if s is None:
            return _REAL_TIME()
        return s.epoch + s.now

    def mono():
        s = _sim()
        if s is None:
            return _REAL_MONO()
        return s.now

    m.sleep = sleep
    m.time = now
    m.monotonic = mono
    m.perf_counter = mono
    m._real = (_REAL_SLEEP, _REAL_TIME, _REAL_MONO)
    return m


_REAL_SLEEP, _REAL_TIME, _REAL_MONO = _time.sleep, _time.time, _time.monotonic
_REAL_PERF = _time.perf_counter


def _install_global_time(shim):
    """Function-level `import time` inside simulated code must see the
    virtual clock too: patch the real module's functions with sim-aware
    wrappers (pass-through for every non-simulated thread)."""
    def sleep(d):
        s = _sim()
        if s is None:
            return _REAL_SLEEP(d)
        s.sleep(d, interruptible=True)

    def now():
        s = _sim()
        return _REAL_TIME() if s is None else s.epoch + s.now

    def mono():
        s = _sim()
        return _REAL_MONO() if s is None else s.now

    def perf():
        s = _sim()
        return _REAL_PERF() if s is None else s.now

    _time.sleep = sleep
    _time.time = now
    _time.monotonic = mono
    _time.perf_counter = perf


# ---------------------------------------------------------- shim: datetime
class SimDateTime(_datetime.datetime):
    @classmethod
    def now(cls, tz=None):
        s = _sim()
        if s is None:
            return _datetime.datetime.now(tz)
        return _datetime.datetime(2001, 9, 9, 1, 46, 40) + _datetime.timedelta(
            seconds=s.now
        )


# --------------------------------------------------------- shim: threading
class _Alive:
    def __init__(self, role):
        self.name = role

    def __repr__(self):
        return "<alive %s>" % self.name


class SimLock:

    def __new__(cls, *a, **k):
        # created by code that does not run under the simulator (the
        # single-threaded engines, helper threads the library starts there):
        # the real primitive - a stand-in that never blocks would turn a
        # correct program into a busy loop or a race
        if _sim() is None:
            return (_threading.RLock() if cls is SimRLock else _threading.Lock())
        return object.__new__(cls)
    def __init__(self):
        self.owner = None
        self.depth = 0
        self.waiters = []
        self.name = "lock"
        self.reentrant = False

    def acquire(self, blocking=True, timeout=-1):
        s = _sim()
        if s is None:
            self.owner = "ext"
            self.depth += 1
            return True
        me = s.me()
        s.step("lock.acquire", self.name)
        while self.owner is not None and not (
            self.reentrant and self.owner is me
        ):
            if not blocking:
                return False
            self.waiters.append(me)
            how = s.block("lock", self, None if timeout is None or timeout < 0
                          else timeout)
            if me in self.waiters:
                self.waiters.remove(me)
            if how == "timeout" and self.owner is not None:
                return False
        self.owner = me
        self.depth += 1
        return True

    def release(self):
        s = _sim()
        self.depth -= 1
        if self.depth <= 0:
            self.depth = 0
            self.owner = None
            if s is not None:
                s.note("lock.release", self.name)
                if self.waiters:
                    s._wake(self.waiters[0], "notified")

    def locked(self):
        return self.owner is not None

    __enter__ = acquire

    def __exit__(self, *a):
        self.release()


class SimRLock(SimLock):
    def __init__(self):
        super().__init__()
        self.reentrant = True


class SimEvent:

    def __new__(cls, *a, **k):
        # created by code that does not run under the simulator (the
        # single-threaded engines, helper threads the library starts there):
        # the real primitive - a stand-in that never blocks would turn a
        # correct program into a busy loop or a race
        if _sim() is None:
            return _threading.Event()
        return object.__new__(cls)
    def __init__(self):
        self.flag = False
        self.waiters = []
        self.name = "event"

    def is_set(self):
        return self.flag

    def set(self):
        s = _sim()
        if s is not None:
            s.step("event.set", self.name)
        self.flag = True
        if s is not None:
            for w in list(self.waiters):
                s._wake(w, "notified")
            self.waiters = []

    def clear(self):
        self.flag = False

    def wait(self, timeout=None):
        s = _sim()
        if s is None:
            return self.flag
        s.step("event.wait", self.name)
        if self.flag:
            return True
        me = s.me()
        self.waiters.append(me)
        s.block("event", self, timeout)
        if me in self.waiters:
            self.waiters.remove(me)
        return self.flag


class SimCondition:
    """threading.Condition on the scheduler (wait releases the lock, blocks
    in virtual time, re-acquires)."""

    def __new__(cls, *a, **k):
        # created by code that does not run under the simulator (the
        # single-threaded engines, helper threads the library starts there):
        # the real primitive - a stand-in that never blocks would turn a
        # correct program into a busy loop or a race
        if _sim() is None:
            return _threading.Condition(*a, **k)
        return object.__new__(cls)

    def __init__(self, lock=None):
        self._lock = lock if lock is not None else SimRLock()
        self.waiters = []
        self.name = "cond"
        self.acquire = self._lock.acquire
        self.release = self._lock.release

    def __enter__(self):
        return self._lock.__enter__()

    def __exit__(self, *a):
        return self._lock.__exit__(*a)

    def wait(self, timeout=None):
        s = _sim()
        if s is None:
            return True
        me = s.me()
        s.step("cond.wait", self.name)
        # release fully (RLock depth), remember it
        depth = getattr(self._lock, "depth", 1)
        saved = depth
        self._lock.depth = 1
        self._lock.release()
        self.waiters.append(me)
        how = s.block("cond", self, timeout)
        if me in self.waiters:
            self.waiters.remove(me)
        self._lock.acquire()
        self._lock.depth = saved
        return how != "timeout"

    def wait_for(self, predicate, timeout=None):
        s = _sim()
        end = None if timeout is None or s is None else s.now + timeout
        result = predicate()
        while not result:
            if end is not None:
                rem = end - s.now
                if rem <= 0:
                    break
                self.wait(rem)
            else:
                self.wait(None)
            result = predicate()
        return result

    def notify(self, n=1):
        s = _sim()
        if s is None:
            return
        s.note("cond.notify", self.name)
        for w in list(self.waiters[:n]):
            self.waiters.remove(w)
            s._wake(w, "notified")

    def notify_all(self):
        self.notify(len(self.waiters))

    notifyAll = notify_all


class SimSemaphore:

    def __new__(cls, *a, **k):
        # created by code that does not run under the simulator (the
        # single-threaded engines, helper threads the library starts there):
        # the real primitive - a stand-in that never blocks would turn a
        # correct program into a busy loop or a race
        if _sim() is None:
            return _threading.Semaphore(*a, **k)
        return object.__new__(cls)
    def __init__(self, value=1):
        self.value = value
        self.waiters = []
        self.name = "sem"

    def acquire(self, blocking=True, timeout=None):
        s = _sim()
        if s is None:
            if self.value > 0:
                self.value -= 1
                return True
            return False
        me = s.me()
        s.step("sem.acquire", self.name)
        while self.value <= 0:
            if not blocking:
                return False
            self.waiters.append(me)
            how = s.block("sem", self, timeout)
            if me in self.waiters:
                self.waiters.remove(me)
            if how == "timeout" and self.value <= 0:
                return False
        self.value -= 1
        return True

    def release(self, n=1):
        s = _sim()
        self.value += n
        if s is not None:
            s.note("sem.release", self.name)
            for w in list(self.waiters[:n]):
                self.waiters.remove(w)
                s._wake(w, "notified")

    __enter__ = acquire

    def __exit__(self, *a):
        self.release()


class _ThreadingShim(types.ModuleType):
    def __getattr__(self, name):
        return getattr(_threading, name)


def _make_threading_shim():
    m = _ThreadingShim("threading(sim)")

    def enumerate_():
        s = _sim()
        if s is None:
            return _threading.enumerate()
        s.step("enumerate", None)
        return [_Alive(t.role) for t in s.threads if t.state != sched.DONE]

    def active_count():
        return len(enumerate_())

    m.enumerate = enumerate_
    m.active_count = active_count
    m.Lock = SimLock
    m.RLock = SimRLock
    m.Event = SimEvent
    m.Condition = SimCondition
    m.Semaphore = SimSemaphore
    m.BoundedSemaphore = SimSemaphore
    return m


# --------------------------------------------------------------- shim: wave
class _WaveWriteProxy:
    """Real wave writer; yields before writeframes/close so that the writer
    thread can be pre-empted (and stalled) around disk writes."""

    def __init__(self, real, label):
        self._real = real
        self._label = label

    def writeframes(self, data):
        s = _sim()
        if s is not None:
            s.step("wav.write", (self._label, len(data)))
            st = FILE_STALL.get("plan")
            if st is not None:
                st.maybe_stall(s)   # slow disk
        return _real(self._real.writeframes, data)

    def writeframesraw(self, data):
        s = _sim()
        if s is not None:
            s.step("wav.write", (self._label, len(data)))
        return _real(self._real.writeframesraw, data)

    def close(self):
        s = _sim()
        if s is not None:
            s.step("wav.close", self._label)
        return _real(self._real.close)

    def __getattr__(self, name):
        return getattr(self._real, name)

    def __enter__(self):
        return self

    def __exit__(self, *a):
        self.close()


class _WaveReadProxy:
    """Real wave reader; every readframes() is a yield point and is logged
    (frames served), so lazily read wav input is observable."""

    def __init__(self, real, label):
        self._real = real
        self._label = label
        self.served_frames = 0
        READERS.append(self)

    def readframes(self, n):
        s = _sim()
        if s is not None:
            s.step("file.read", (self._label, n))
            st = FILE_STALL.get("plan")
            if st is not None:
                st.maybe_stall(s)
        d = _real(self._real.readframes, n)
        w = self._real.getsampwidth() * self._real.getnchannels()
        self.served_frames += len(d) // max(1, w)
        if s is not None:
            s.note("file.data", len(d))
        return d

    def close(self):
        return self._real.close()

    def __getattr__(self, name):
        return getattr(self._real, name)

    def __enter__(self):
        return self

    def __exit__(self, *a):
        self.close()


class _FileReadProxy:
    def __init__(self, real, label, raw=False):
        self._real = real
        self._label = label
        self._raw = raw
        self._frag = 0
        self.served_bytes = 0
        self.short_reads = 0
        self.reads = 0
        self.eof_returned = 0
        self.reads_after_eof = 0
        READERS.append(self)

    def read(self, n=-1):
        s = _sim()
        if s is not None:
            s.step("file.read", (self._label, n))
            st = FILE_STALL.get("plan")
            if st is not None:
                st.maybe_stall(s)
        if self._raw and n is not None and n > 1:
            pat = (3, 1, 7, 2, 5, 150, 1, 64)
            self._frag += 1
            k = max(1, min(n, pat[self._frag % len(pat)]))
            if k < n:
                self.short_reads += 1
            n = k
        d = _real(self._real.read, n)
        self.served_bytes += len(d)
        self.reads += 1
        if self.eof_returned:
            self.reads_after_eof += 1
        if not d and n != 0:
            self.eof_returned += 1
        if s is not None:
            s.note("file.data", len(d))
        return d

    def __getattr__(self, name):
        return getattr(self._real, name)

    def __enter__(self):
        return self

    def __exit__(self, *a):
        self._real.close()


READERS = []
FILE_STALL = {"plan": None}


PROXY_FILES = {"on": False}


def sim_open(file, mode="r", *args, **kwargs):
    if isinstance(file, int) and not isinstance(file, bool):
        from . import sources as _sources
        pipe = _sources.FD_PIPES.get(file)
        if pipe is not None and "r" in mode and "b" in mode:
            # the descriptor of the simulated stdin, re-opened by the program
            buffering = args[0] if args else kwargs.get("buffering", -1)
            closefd = kwargs.get("closefd", True)
            return _sources.RawPipeView(pipe, closefd, raw=(buffering == 0))
    real = builtins.open(file, mode, *args, **kwargs)
    if (_sim() is not None or PROXY_FILES["on"]) and mode == "rb" \
            and isinstance(file, str):
        # (regular files are never fragmented, buffered or not: a raw read
        # of a regular file returns all it was asked for)
        return _FileReadProxy(real, _os.path.basename(file))
    return real


class _WaveShim(types.ModuleType):
    def __getattr__(self, name):
        return getattr(_wave, name)


def _make_wave_shim():
    m = _WaveShim("wave(sim)")

    def open_(f, mode=None):
        real = _wave.open(f, mode)
        if _sim() is not None or PROXY_FILES["on"]:
            label = _os.path.basename(f) if isinstance(f, str) else "fileobj"
            if mode in ("wb", "w"):
                return _WaveWriteProxy(real, label)
            return _WaveReadProxy(real, label)
        return real

    m.open = open_
    return m


# ----------------------------------------------------------------- shim: os
class _OsShim(types.ModuleType):
    def __getattr__(self, name):
        return getattr(_os, name)


SYSTEM_CALLS = []
SYSTEM_FILES = []


def _make_os_shim():
    m = _OsShim("os(sim)")

    def system(cmd):
        s = _sim()
        if s is not None:
            s.step("os.system", None)
        SYSTEM_CALLS.append(cmd)
        # what the command would have seen: the file named last on the
        # command line, as it is NOW (the program may delete it afterwards)
        content = None
        try:
            path = str(cmd).split(" ")[-1]
            if _os.path.isfile(path):
                with builtins.open(path, "rb") as f:
                    content = f.read()
        except Exception:
            content = None
        SYSTEM_FILES.append(content)
        return 0

    m.system = system
    return m


# -------------------------------------------------------- shim: subprocess
import subprocess as _subprocess


class _SubprocessShim(types.ModuleType):
    def __getattr__(self, name):
        return getattr(_subprocess, name)


SUBPROCESS_CALLS = []


def _make_subprocess_shim():
    """Fault `encoder_missing`: no external encoder (ffmpeg / avconv / sox)
    can be started - what the sealed sandbox looks like anyway, made
    independent of the machine."""
    m = _SubprocessShim("subprocess(sim)")

    def _is_shell(cmd, k):
        return bool(k.get("shell")) or isinstance(cmd, str)

    class _DoneProcess:
        """a shell command that has run (the recording os.system seam)"""
        returncode = 0
        stdout = stderr = stdin = None
        pid = 4242

        def __init__(self, cmd):
            self.args = cmd

        def wait(self, timeout=None):
            return 0

        def poll(self):
            return 0

        def communicate(self, input=None, timeout=None):
            return (b"", b"")

        def kill(self):
            pass
        terminate = kill

        def __enter__(self):
            return self

        def __exit__(self, *a):
            return False

    def _shell(cmd):
        _BOUND["shims"]["os"].system(cmd)

    def call(cmd, *a, **k):
        if _is_shell(cmd, k):
            _shell(cmd)
            return 0
        return Popen(cmd, *a, **k)

    def check_call(cmd, *a, **k):
        return call(cmd, *a, **k)

    def check_output(cmd, *a, **k):
        call(cmd, *a, **k)
        return b""

    def run(cmd, *a, **k):
        call(cmd, *a, **k)
        return _subprocess.CompletedProcess(cmd, 0, b"", b"")

    m.call, m.check_call, m.check_output, m.run = (call, check_call,
                                                   check_output, run)

    def Popen(cmd, *a, **k):
        if _is_shell(cmd, k):
            # a command observer run through a shell
            _shell(cmd)
            return _DoneProcess(cmd)
        SUBPROCESS_CALLS.append(list(cmd) if isinstance(cmd, (list, tuple))
                                else cmd)
        for v in (k.get("stdin"), ):
            try:
                if hasattr(v, "close"):
                    v.close()
            except Exception:
                pass
        raise FileNotFoundError(2, "No such file or directory: %r" % (
            cmd[0] if isinstance(cmd, (list, tuple)) else cmd,))

    m.Popen = Popen
    return m


# ------------------------------------------------------------ shim: signal
import signal as _signal


class _SignalShim(types.ModuleType):
    def __getattr__(self, name):
        return getattr(_signal, name)


def _make_signal_shim():
    """signal.signal() only works in the main thread of the interpreter; the
    simulated program's main thread is a carrier.  A SIGINT handler the
    program installs is kept by the simulator, and the simulated Ctrl-C runs
    it in the simulated main thread instead of raising KeyboardInterrupt."""
    m = _SignalShim("signal(sim)")
    real_signal, real_getsignal = _signal.signal, _signal.getsignal

    def signal(signum, handler):
        s = _sim()
        if s is None or signum != _signal.SIGINT:
            if s is not None:
                return _signal.SIG_DFL     # other signals: accepted, inert
            return real_signal(signum, handler)
        prev = s.sigint_handler
        s.sigint_handler = handler
        s.note("signal.install", getattr(handler, "__name__", str(handler)))
        return prev if prev is not None else _signal.default_int_handler

    def getsignal(signum):
        s = _sim()
        if s is None or signum != _signal.SIGINT:
            return real_getsignal(signum)
        h = s.sigint_handler
        return h if h is not None else _signal.default_int_handler

    m.signal, m.getsignal = signal, getsignal
    # process-wide too (pass-through outside a simulation): a function-level
    # `import signal` in the library reaches the real module
    _signal.signal, _signal.getsignal = signal, getsignal
    return m


# ------------------------------------------------------------ print capture
PRINTED = []


def sim_print(*args, **kwargs):
    s = _sim()
    if s is None:
        return builtins.print(*args, **kwargs)
    f = kwargs.get("file")
    if f is not None and f is not sys.stdout:
        s.note("print.err", None)
        STDERR.append(kwargs.get("sep", " ").join(map(str, args)))
        return None
    # through the simulated sys.stdout (one capture path for print() and
    # for direct writes)
    sys.stdout.write(kwargs.get("sep", " ").join(map(str, args))
                     + kwargs.get("end", "\n"))
    return None


STDERR = []
PRINT_META = []   # (event seq, role) of each captured stdout line


class _SimStdout:
    """sys.stdout for the whole process: simulated threads' writes are
    captured line by line (a program may print through sys.stdout.write
    instead of print), everything else passes through."""

    def __init__(self, real):
        self._real = real
        self._partial = {}

    def write(self, text):
        s = _sim()
        if s is None:
            return self._real.write(text)
        me = s.me()
        key = id(me)
        buf = self._partial.get(key, "") + str(text)
        while "\n" in buf:
            line, buf = buf.split("\n", 1)
            s.step("print", None)
            st = FILE_STALL.get("plan")
            if st is not None:
                st.maybe_stall(s)
            PRINTED.append(line + "\n")
            PRINT_META.append((s.seq, me.role if me is not None else "-"))
        self._partial[key] = buf
        return len(text)

    def flush(self):
        if _sim() is None:
            return self._real.flush()

    def __getattr__(self, name):
        return getattr(self._real, name)


SCRATCH = {"dir": None, "n": 0}


def sim_named_temporary_file(*args, **kwargs):
    s = _sim()
    if s is None or SCRATCH["dir"] is None:
        return _tempfile.NamedTemporaryFile(*args, **kwargs)
    SCRATCH["n"] += 1
    path = _os.path.join(SCRATCH["dir"], "tmp_%d" % SCRATCH["n"])
    return _NamedFile(path)


class _NamedFile:
    def __init__(self, path):
        self.name = path
        self._f = builtins.open(path, "wb")

    def __enter__(self):
        return self

    def __exit__(self, *a):
        self._f.close()

    def __getattr__(self, name):
        return getattr(self._f, name)


# --------------------------------------------------------------------- bind
_BOUND = {"done": False, "shims": None, "report": []}


def bind():
    """Rebind the nondeterministic dependencies of the auditok modules.
    Idempotent.  Returns the list of (module, name, kind) actually rebound."""
    if _BOUND["done"]:
        return _BOUND["report"]
    sched.install_thread_patches()
    # before the library is imported: a module that binds stdout at import
    # time (`from sys import stdout`, a default argument) gets the capture
    install_stdout()
    import auditok  # noqa: F401
    import auditok.cmdline
    import auditok.cmdline_util
    import auditok.core
    import auditok.io
    import auditok.util
    import auditok.workers

    shims = {
        "queue": _make_queue_shim(),
        "time": _make_time_shim(),
        "threading": _make_threading_shim(),
        "wave": _make_wave_shim(),
        "os": _make_os_shim(),
        "subprocess": _make_subprocess_shim(),
        "signal": _make_signal_shim(),
    }
    _BOUND["shims"] = shims
    _install_global_time(shims["time"])
    report = [("time", "sleep/time/monotonic/perf_counter", "global wrappers")]
    mods = [auditok.workers, auditok.cmdline, auditok.cmdline_util,
            auditok.io, auditok.core, auditok.util]
    for mod in mods:
        short = mod.__name__.split(".")[-1]
        for name, val in list(vars(mod).items()):
            new = None
            if val is _queue.Queue or val is _queue.SimpleQueue \
                    or val is _queue.LifoQueue:
                new = SimQueue
            elif val is _queue:
                new = shims["queue"]
            elif val is _time:
                new = shims["time"]
            elif val is _time.sleep:
                new = shims["time"].sleep
            elif val is _threading:
                new = shims["threading"]
            elif val is _threading.Lock:
                new = SimLock
            elif val is _threading.RLock:
                new = SimRLock
            elif val is _threading.Event:
                new = SimEvent
            elif val is _threading.Condition:
                new = SimCondition
            elif val is _threading.Semaphore \
                    or val is _threading.BoundedSemaphore:
                new = SimSemaphore
            elif val is _wave:
                new = shims["wave"]
            elif val is _datetime.datetime:
                new = SimDateTime
            elif val is _tempfile.NamedTemporaryFile:
                new = sim_named_temporary_file
            elif val is _os and short == "workers":
                new = shims["os"]
            elif val is _os.system and short == "workers":
                new = shims["os"].system
            elif val is _subprocess and short == "workers":
                new = shims["subprocess"]
            elif val is _signal:
                new = shims["signal"]
            elif val is _signal.signal:
                new = shims["signal"].signal
            elif val is _signal.getsignal:
                new = shims["signal"].getsignal
            if new is not None:
                setattr(mod, name, new)
                report.append((short, name, type(new).__name__))
    # builtins shadowed at module level
    for mod in (auditok.workers, auditok.cmdline, auditok.cmdline_util):
        mod.print = sim_print
        report.append((mod.__name__.split(".")[-1], "print", "capture"))
    auditok.io.open = sim_open
    report.append(("io", "open", "read proxy"))
    _BOUND["done"] = True
    _BOUND["report"] = report
    return report


def install_stdout():
    if not isinstance(sys.stdout, _SimStdout):
        sys.stdout = _SimStdout(sys.stdout)


def reset_captures(scratch_dir=None):
    try:
        from . import sources as _sources
        _sources.release_fds()      # descriptors handed out in earlier runs
    except ImportError:
        pass
    if isinstance(sys.stdout, _SimStdout):
        sys.stdout._partial.clear()   # unterminated text of an earlier run
    del PRINTED[:]
    del PRINT_META[:]
    del STDERR[:]
    del SYSTEM_CALLS[:]
    del SYSTEM_FILES[:]
    del SUBPROCESS_CALLS[:]
    del READERS[:]
    FILE_STALL["plan"] = None
    PROXY_FILES["on"] = False
    SCRATCH["dir"] = scratch_dir
    SCRATCH["n"] = 0

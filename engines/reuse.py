"""Engine `reuse` — C20.

Histories of *uses* of one object (tokenizer, bytes/region, recorder,
validator, buffer source), including generators consumed partially, closed,
dropped or kept suspended while the object is reused, and streams that end in
every automaton state.  Oracle: a fresh object on the same input.
"""
from simkit import sources
from simkit.tape import mix

from . import common as C


def _valid(f):
    return f[1]


class FrameSrc:
    def __init__(self, pattern, tag, hook_at=None, hook=None):
        self.p = pattern
        self.i = 0
        self.tag = tag
        self.hook_at = hook_at
        self.hook = hook

    def reset(self, pattern, tag, hook_at=None, hook=None):
        """the same source OBJECT carries another stream (as a rewound
        recorder or a StringDataSource after set_data() does)"""
        self.__init__(pattern, tag, hook_at, hook)
        return self

    def read(self):
        if self.hook is not None and self.i == self.hook_at:
            h, self.hook = self.hook, None
            h()     # something happens while the tokenizer is inside read()
        if self.i >= len(self.p):
            return None
        f = (self.tag * 1000 + self.i, self.p[self.i])
        self.i += 1
        return f


USE_MODES = ["list", "callback", "gen_full", "gen_partial_keep",
             "gen_partial_close", "gen_partial_drop", "gen_deferred"]


class Engine:
    name = "reuse"
    props = ("C20",)

    def level(self, prop):
        return "exploration"

    def rule(self, prop):
        return ("One evaluation = one drawn history of uses of one object: "
                "(tok) one StreamTokenizer fed 2-6 streams in list / callback "
                "/ generator mode, generators consumed fully, partially and "
                "kept suspended, closed, or dropped after k items, earlier "
                "streams ending in any automaton state; (split) repeated "
                "split() of the same bytes / AudioRegion with earlier "
                "generators fully, partly or not consumed; (rec) split a "
                "recorder live (possibly abandoned after k regions), rewind, "
                "split again twice; (val) one validator judging a window "
                "after other windows; (buf) BufferAudioSource read, close, "
                "open. Every step is compared with a fresh object on the "
                "same input. distinct = distinct (part, parameters, history) "
                "signature; non-trivial = the history contains at least two "
                "uses and the compared use yields at least one token/region/"
                "verdict/chunk.")

    def components(self):
        return {"real": ["auditok.core.StreamTokenizer, split, AudioRegion",
                         "auditok.util.AudioReader(record=True), "
                         "AudioEnergyValidator", "auditok.io."
                         "BufferAudioSource"],
                "simulated": ["live audio -> SimAudioSource (rec part)"],
                "stubbed": [], "not_run": []}

    def assumptions(self, prop):
        return ["single-threaded; the history of earlier uses is the "
                "simulated dimension",
                "a suspended generator is never resumed after the object has "
                "been reused (the property does not cover that)"]

    def describe(self, sc):
        return sc

    def gen(self, T, prop, tier, ctx=None):
        part = T.weighted([(5, "tok"), (2, "split"), (2, "rec"), (1, "val"),
                           (1, "buf")])
        sc = {"prop": prop, "part": part}
        nmax = 30 if tier == "quick" else 80
        if part == "tok":
            mx = T.between(1, 8)
            if T.draw(12) == 0:
                mx = T.between(9, 45)   # occasionally long tokens
            sc["tok"] = {"max_length": mx, "min_length": T.between(1, mx),
                         "mcs": T.draw(mx),
                         "init_min": T.draw(mx) if T.draw(3) == 0 else 0,
                         "init_max_silence": T.draw(5) if T.draw(3) == 0 else 0,
                         "mode": T.choice([0, 2, 4, 6])}
            uses = []
            for _ in range(T.between(2, 6)):
                n = T.draw(nmax + 1)
                tail = T.weighted([(3, "none"), (1, "cut"), (1, "psil"),
                                   (1, "noise"), (1, "init")])
                uses.append({"mode": T.choice(USE_MODES), "k": T.draw(6),
                             "n": n, "tail": tail,
                             # finalise a suspended earlier generator after
                             # this many tokens of this use (0 = never)
                             "finalise_kept_after": T.draw(4),
                             "finalise_how": T.draw(2),
                             # ... or while the tokenizer is inside the
                             # read of this frame (-1 = never)
                             "finalise_at_read": T.draw(n + 2) - 1
                             if T.draw(3) == 0 else -1})
            sc["uses"] = uses
            sc["patterns"] = [C.gen_pattern(T, u["n"]) for u in uses]
            # every stream arrives through ONE source object (refilled)
            sc["same_src"] = T.draw(3) == 0
        else:
            sw, ch, sr, bsz = C.gen_format(T, rich=False)
            sc["fmt"] = [sw, ch, sr, bsz]
            sc["block_dur"] = C.block_dur_for(bsz, sr)
            sc["params"] = C.gen_split_params(T, bsz / sr)
            n = T.draw(nmax + 1)
            sc["n"] = n
            sc["extra"] = T.draw(bsz) if T.draw(3) == 0 else 0
            sc["history"] = [[T.choice(["full", "partial", "none", "drop"]),
                              T.draw(5)] for _ in range(T.between(1, 5))]
            sc["as_region"] = bool(T.draw(2))
            sc["nwin2"] = T.draw(12)
            sc["pattern"] = C.gen_pattern(T, n)
            sc["pattern2"] = C.gen_pattern(T, sc["nwin2"])
        return sc

    def run(self, sc, S, prop, want_trace=False):
        out = {"violation": None, "error": None, "steps": 0, "simtime": 0.0,
               "faults": {}, "probes": {}, "nontrivial": False}
        try:
            v = getattr(self, "_" + sc["part"])(sc, out)
        except Exception:
            import traceback
            out["error"] = "engine crashed: " + traceback.format_exc()
            return out
        out["violation"] = v
        out["sig"] = mix(repr(sc))
        out["shape"] = sc["part"]
        return out

    @staticmethod
    def _V(clause, detail, sig=None):
        return {"clause": clause, "detail": str(detail)[:1200],
                "signature": sig or clause}

    # ------------------------------------------------------------ tokenizer
    def _tok(self, sc, out):
        from auditok.core import StreamTokenizer
        p = sc["tok"]
        args = (_valid, p["min_length"], p["max_length"], p["mcs"],
                p["init_min"], p["init_max_silence"], p["mode"])
        try:
            reused = StreamTokenizer(*args)
        except ValueError:
            out["probes"]["params_rejected"] = 1
            return None
        keep = []
        shared = None
        deferred = []   # (generator requested earlier, its fresh result, ui)

        def norm(toks):
            return [(tuple(f[0] for f in t[0]), t[1], t[2]) for t in toks]

        mx, mcs = p["max_length"], p["mcs"]
        for ui, (u, pat) in enumerate(zip(sc["uses"], sc["patterns"])):
            pat = list(pat)
            if u["tail"] == "cut":
                pat += [1] * mx
            elif u["tail"] == "psil":
                pat += [1] + [0] * min(mcs, 2)
            elif u["tail"] == "noise":
                pat += [1, 1]
            elif u["tail"] == "init":
                pat += [1] + [0] * min(p["init_max_silence"], 2)
            fresh = norm(StreamTokenizer(*args).tokenize(FrameSrc(pat, ui)))
            mode = u["mode"]
            if ui == len(sc["uses"]) - 1:
                mode = "list" if mode.startswith("gen_partial") \
                    or mode == "gen_deferred" else mode
            out["steps"] += 1
            if sc.get("same_src"):
                if shared is None:
                    shared = FrameSrc(pat, ui)
                src = shared.reset(pat, ui)
                out["faults"]["same_source_object_refilled"] = 1
            else:
                src = FrameSrc(pat, ui)
            far = u.get("finalise_at_read", -1)
            if far >= 0 and keep and mode in ("list", "callback",
                                              "gen_full"):
                def _finalise_now(_how=u.get("finalise_how")):
                    # an abandoned generator is closed / collected while a
                    # later run is in the middle of reading a frame
                    if not keep:
                        return
                    old = keep.pop(0)
                    if _how:
                        getattr(old, "close", lambda: None)()
                    del old
                    out["faults"]["finalise_suspended_inside_read"] = \
                        out["faults"].get(
                            "finalise_suspended_inside_read", 0) + 1
                if sc.get("same_src"):
                    src = shared.reset(pat, ui, far, _finalise_now)
                else:
                    src = FrameSrc(pat, ui, hook_at=far, hook=_finalise_now)
            if mode == "gen_deferred":
                # the generator is REQUESTED now but not started; it is
                # consumed - in one go - only after the next use of the
                # tokenizer has run to completion (the pattern
                # `gens = [tok.tokenize(s, generator=True) for s in streams]`
                # followed by consuming them one after the other): its run
                # then is a use "after a complete run"
                deferred.append((reused.tokenize(FrameSrc(pat, ui),
                                                 generator=True), fresh, ui))
                out["faults"]["deferred_generator"] = \
                    out["faults"].get("deferred_generator", 0) + 1
                continue
            if mode == "list":
                got = norm(reused.tokenize(src))
                want = fresh
            elif mode == "callback":
                acc = []
                reused.tokenize(src, callback=lambda d, s, e: acc.append(
                    (d, s, e)))
                got = norm(acc)
                want = fresh
            elif mode == "gen_full":
                acc = []
                fk = u.get("finalise_kept_after", 0)
                for t in reused.tokenize(src, generator=True):
                    acc.append(t)
                    if fk and len(acc) == fk and keep:
                        # an abandoned generator is finalised (closed /
                        # garbage-collected) while a later run is under way
                        old = keep.pop(0)
                        if u.get("finalise_how"):
                            getattr(old, "close", lambda: None)()
                        del old
                        out["faults"]["finalise_suspended_midrun"] = \
                            out["faults"].get(
                                "finalise_suspended_midrun", 0) + 1
                got = norm(acc)
                want = fresh
            else:
                g = reused.tokenize(src, generator=True)
                k = u["k"]
                acc = []
                for t in g:
                    if len(acc) >= k:
                        break
                    acc.append(t)
                # note: breaking after the (k+1)-th token was produced
                got = norm(acc)
                want = fresh[:len(acc)]
                if len(acc) < k and len(fresh) != len(acc):
                    want = fresh
                if mode == "gen_partial_keep":
                    keep.append(g)
                    out["faults"]["abandon_suspended"] = \
                        out["faults"].get("abandon_suspended", 0) + 1
                elif mode == "gen_partial_close":
                    getattr(g, "close", lambda: None)()
                    out["faults"]["abandon_closed"] = \
                        out["faults"].get("abandon_closed", 0) + 1
                else:
                    del g
                    out["faults"]["abandon_dropped"] = \
                        out["faults"].get("abandon_dropped", 0) + 1
            st = getattr(reused, "_state", None)
            if st is not None:
                out["probes"]["end_state_%s" % st] = 1
            if getattr(reused, "_contiguous_token", False):
                out["probes"]["end_with_continuation_flag"] = 1
            if got != want:
                return self._V("C20.1", "use %d (%s) of a reused tokenizer "
                               "delivered %r, a fresh tokenizer %r; earlier "
                               "uses: %r" % (
                                   ui, mode, [(t[1], t[2]) for t in got],
                                   [(t[1], t[2]) for t in want],
                                   [(x["mode"], x["tail"]) for x in
                                    sc["uses"][:ui]]), "C20.1:tokenizer")
            if ui >= 1 and want:
                out["nontrivial"] = True
            # consume generators that were requested before this use - only
            # after a use that ran to completion and when no other generator
            # is suspended mid-stream (resuming one after reuse is outside
            # the property)
            if deferred and mode in ("list", "callback", "gen_full") \
                    and not keep:
                for g_, fresh_, ui_ in deferred:
                    got_ = norm(list(g_))
                    if got_ != fresh_:
                        return self._V(
                            "C20.1", "a generator requested at use %d and "
                            "consumed after use %d (%s) had completed "
                            "delivered %r, a fresh tokenizer %r" % (
                                ui_, ui, mode, [(t[1], t[2]) for t in got_],
                                [(t[1], t[2]) for t in fresh_]),
                            "C20.1:deferred_generator")
                deferred = []
        return None

    # ---------------------------------------------------------------- split
    def _mk(self, sc):
        sw, ch, sr, bsz = sc["fmt"]
        data = C.synth(sc["pattern"], bsz, sw, ch, sc["extra"])
        kw = C.split_kwargs(sc["params"])
        kw["eth"] = C.ETH
        return sw, ch, sr, bsz, data, kw

    def _split(self, sc, out):
        from auditok import AudioRegion, split
        sw, ch, sr, bsz, data, kw = self._mk(sc)
        aw = sc["block_dur"]

        def key(rs):
            return [(r.start, r.end, bytes(r.data)) for r in rs]
        if sc["as_region"]:
            obj = AudioRegion(data, sr, sw, ch)

            def do():
                return obj.split(analysis_window=aw, **kw)
            snapshot = bytes(obj.data)
        else:
            obj = data

            def do():
                return split(obj, sr=sr, sw=sw, ch=ch, analysis_window=aw,
                             **kw)
            snapshot = bytes(data)
        want = key(do())
        keep = []
        for how, k in sc["history"]:
            out["steps"] += 1
            g = do()
            if how == "full":
                got = key(g)
                if got != want:
                    return self._V("C20.2", "repeated split gave %d regions, "
                                   "first split %d" % (len(got), len(want)),
                                   "C20.2:split_repeat")
            elif how == "partial":
                acc = []
                for r in g:
                    acc.append(r)
                    if len(acc) >= k:
                        break
                if key(acc) != want[:len(acc)]:
                    return self._V("C20.2", "partially consumed split "
                                   "differs", "C20.2:split_partial")
                keep.append(g)
            elif how == "drop":
                del g
            else:
                keep.append(g)
        got = key(do())
        if got != want:
            return self._V("C20.2", "split after history %r gave %r, first "
                           "split %r" % (sc["history"],
                                         [(a, b) for a, b, _ in got],
                                         [(a, b) for a, b, _ in want]),
                           "C20.2:split_repeat")
        # two independent split() calls with equal parameters on different
        # inputs, consumed in lock step: each must behave as if alone
        data2 = C.synth(sc["pattern2"], bsz, sw, ch)

        def do2():
            return split(data2, sr=sr, sw=sw, ch=ch, analysis_window=aw,
                         **kw)
        want2 = key(do2())
        g1, g2, g3 = do(), do2(), do()   # g1 and g3: the same input object
        gens = [iter(g1), iter(g2), iter(g3)]
        accs = [[], [], []]
        live = [True, True, True]
        turn = sc["nwin2"] % 3
        while any(live):
            out["steps"] += 1
            k_ = turn % 3
            turn += 1
            if not live[k_]:
                continue
            try:
                accs[k_].append(next(gens[k_]))
            except StopIteration:
                live[k_] = False
        acc1, acc2, acc3 = accs
        out["faults"]["interleaved_generators"] = 1
        if key(acc3) != want:
            return self._V("C20.2", "two split() generators over the SAME "
                           "input object consumed in lock step interfere: "
                           "the second gives %r, alone %r" % (
                               [(a, b) for a, b, _ in key(acc3)],
                               [(a, b) for a, b, _ in want]),
                           "C20.2:split_same_object_interleaved")
        if key(acc1) != want or key(acc2) != want2:
            return self._V("C20.2", "two split() generators with equal "
                           "parameters consumed in lock step interfere: got "
                           "%r / %r, alone they give %r / %r" % (
                               [(a, b) for a, b, _ in key(acc1)],
                               [(a, b) for a, b, _ in key(acc2)],
                               [(a, b) for a, b, _ in want],
                               [(a, b) for a, b, _ in want2]),
                           "C20.2:split_interleaved")
        cur = bytes(obj.data) if sc["as_region"] else bytes(obj)
        if cur != snapshot:
            return self._V("C20.2", "input object was modified by split()",
                           "C20.2:input_modified")
        out["nontrivial"] = bool(want)
        return None

    # ------------------------------------------------------------- recorder
    def _rec(self, sc, out):
        from auditok import AudioReader, split
        sw, ch, sr, bsz, data, kw = self._mk(sc)
        src = sources.SimAudioSource(data, sr, sw, ch)
        reader = AudioReader(src, block_dur=sc["block_dur"], record=True)

        def key(rs):
            return [(r.start, r.end, bytes(r.data)) for r in rs]
        how, k = sc["history"][0]
        g = split(reader, **kw)
        if how in ("partial", "drop") and k >= 1:
            acc = []
            for r in g:
                acc.append(r)
                if len(acc) >= k:
                    break
            live = key(acc)
            out["faults"]["abandon"] = 1
            partial = True
        else:
            live = key(g)
            partial = False
        reader.rewind()
        rec = reader.data
        if rec != src.served_bytes():
            # what the recording holds is C19's business; here only "the
            # same regions each time" is judged, against this recording
            out["probes"]["recording_differs_from_served"] = 1
        fresh = key(split(AudioReader(rec, block_dur=sc["block_dur"], sr=sr,
                                      sw=sw, ch=ch), **kw))
        complete = rec == src.served_bytes()
        if not partial and complete and live != fresh:
            return self._V("C20.3", "live split %r differs from a split of "
                           "the recorded bytes %r" % (
                               [(a, b) for a, b, _ in live],
                               [(a, b) for a, b, _ in fresh]),
                           "C20.3:live_vs_recorded")
        reads_before = src.reads
        # replays stopped early, each followed by another rewind
        for how2, k2 in sc["history"][1:]:
            if how2 in ("partial", "drop"):
                g2 = split(reader, **kw)
                for j, _r in enumerate(g2, 1):
                    if j >= max(1, k2):
                        break
                if how2 == "drop":
                    del g2
                out["faults"]["partial_replay"] = \
                    out["faults"].get("partial_replay", 0) + 1
            reader.rewind()
            if reader.data != rec:
                out["probes"]["recording_changed_by_partial_replay"] = 1
        first = None
        for n in range(2):
            out["steps"] += 1
            again = key(split(reader, **kw))
            if again != fresh:
                # how a replay is framed relative to a fresh reader over the
                # same bytes is C19's business
                out["probes"]["replay_differs_from_fresh_reader"] = 1
            if first is None:
                first = again
                if not partial and complete and again != live:
                    return self._V("C20.3", "split of the rewound recorder "
                                   "gave %r, the live split %r" % (
                                       [(a, b) for a, b, _ in again],
                                       [(a, b) for a, b, _ in live]),
                                   "C20.3:rewound_split")
            elif again != first:
                return self._V("C20.3", "split #%d of the rewound recorder "
                               "gave %r, split #2 %r" % (
                                   n + 2, [(a, b) for a, b, _ in again],
                                   [(a, b) for a, b, _ in first]),
                               "C20.3:rewound_split")
            reader.rewind()
        if src.reads != reads_before:
            out["probes"]["live_source_read_after_rewind"] = 1
        out["nontrivial"] = bool(fresh)
        return None

    # ------------------------------------------------------------ validator
    def _val(self, sc, out):
        from auditok.util import AudioEnergyValidator
        sw, ch, sr, bsz = sc["fmt"]
        # windows of different lengths: full windows and shorter (partial
        # last window of a stream) ones, loud and quiet
        wins = []
        for i, p in enumerate(sc["pattern"]):
            ln = bsz if (i + sc["nwin2"]) % 3 else 1 + (i % bsz)
            wins.append(C.make_window(i, p, ln, sw, ch))
        wins += [b"\x00" * (bsz * sw * ch), b"\x00" * (sw * ch),
                 C.make_window(1, 1, 2 * bsz + 1, sw, ch)]
        if sc["nwin2"] % 4 == 0:
            # long windows (>= 1024 samples) of different lengths whose
            # energy sits exactly at / just around the threshold
            def const(a, n):
                return (bytes([a]) + b"\x00" * (sw - 1)) * (n * ch)
            wins = [const(10, 1600), const(10, 1120), const(10, 1024),
                    const(9, 2000), const(10, 3000), const(11, 1100),
                    const(10, 1500), const(9, 1030)] + wins[:4]
            out["probes"]["validator_long_windows"] = 1
        if any(len(w_) != len(wins[0]) for w_ in wins):
            out["probes"]["validator_window_lengths_vary"] = 1
        uc = [None, "mix", 0, ch - 1][sc["history"][0][1] % 4]
        v = AudioEnergyValidator(C.ETH, sw, ch, use_channel=uc)
        fresh = [AudioEnergyValidator(C.ETH, sw, ch, use_channel=uc)
                 .is_valid(w) for w in wins]
        order = list(range(len(wins)))
        # deterministic shuffle from the drawn history
        for a, (_, k) in enumerate(sc["history"]):
            if order:
                order = order[k % len(order):] + order[:k % len(order)]
        seq = order + order[::-1]
        mutable = sc["as_region"]
        buf = bytearray(max(len(w_) for w_ in wins))
        if mutable:
            out["probes"]["validator_reused_mutable_buffer"] = 1
        for i in seq:
            out["steps"] += 1
            if mutable:
                # the caller reuses one buffer for successive windows
                n_ = len(wins[i])
                buf[:n_] = wins[i]
                arg = memoryview(buf)[:n_] if n_ != len(buf) else buf
                try:
                    got = v.is_valid(arg)
                except (TypeError, ValueError, BufferError):
                    got = v.is_valid(bytes(arg))
            else:
                got = v.is_valid(wins[i])
            if bool(got) != bool(fresh[i]):
                return self._V("C20.4", "validator verdict for window %d "
                               "changed after judging other windows" % i,
                               "C20.4:validator")
        out["nontrivial"] = len(wins) >= 2
        return None

    # --------------------------------------------------------------- buffer
    def _buf(self, sc, out):
        from auditok.io import BufferAudioSource
        sw, ch, sr, bsz, data, kw = self._mk(sc)
        s = BufferAudioSource(data, sr, sw, ch)
        for how, k in sc["history"]:
            out["steps"] += 1
            s.open()
            acc = []
            n = {"full": 10 ** 6, "partial": k, "none": 0, "drop": k + 1}[how]
            for _ in range(n):
                b = s.read(bsz)
                if b is None:
                    break
                acc.append(b)
            want = data[:len(b"".join(acc))]
            if b"".join(acc) != want:
                return self._V("C20.5", "reopened buffer source did not "
                               "restart at the beginning", "C20.5:buffer")
            s.close()
            out["faults"]["close_reopen"] = \
                out["faults"].get("close_reopen", 0) + 1
        s.open()
        b = s.read(bsz)
        want = data[:bsz * sw * ch] or None
        if b != want:
            return self._V("C20.5", "after close/open the first read returned "
                           "%r..., expected the first block" % (
                               None if b is None else b[:8],), "C20.5:buffer")
        out["nontrivial"] = bool(data)
        return None

"""Engine `cli` — C15.

auditok.cmdline.main(argv) runs whole as the main simulated thread: real
argparse, real worker threads under the seeded scheduler, virtual time for
the sleep/enumerate loop, input from a real scratch file (eager or lazy) or
from a simulated stdin pipe, captured stdout, KeyboardInterrupt injected
while main sleeps.  Oracle: the sequential API call with the documented
option mapping and defaults (hard-coded here from the documentation).
"""
import glob
import hashlib
import os
import re
import sys
import wave

from simkit import sched, seams, sources
from simkit.tape import mix

from . import common as C
from .pipeline import gen_sched, _trace_files

# documented defaults (README / --help), deliberately hard-coded
DEFAULTS = {"a": 0.01, "n": 0.2, "m": 5.0, "s": 0.3, "e": 50.0,
            "r": 16000, "c": 1, "w": 2,
            "printf": "{id} {start} {end}", "time_format": "%S"}

PRINTFS = [None, "{id}|{start}|{end}|{duration}", "E{id}|{start}|{end}",
           "{id}\\t{start}\\t{end}", "{start}|{end}|{id}", "{duration}|{id}",
           # non-ASCII literals and a backslash sequence that is not one of
           # the documented \\n \\t \\r escapes (stays as it is)
           "\u00e9v\u00e9nement {id} \u2192 {start}\u2016{end}",
           "{id}\\q{start}\\q{end}"]
# (placeholders with format specs / conversions are not generated: the
# documentation promises the bare placeholders only)
TIMEFMTS = [None, "%S", "%I", "%h:%m:%s.%i", "%i_%s_%m_%h", "%hh%mm%ss%ims"]
BAD_TIMEFMTS = ["%x", "%h:%m:%s.%i%q", "%H:%M"]


def make_cli_window(i, code, nsamples, sw, ch):
    """code: 0 quiet, 1 loud on all channels, 2 loud on channel 0 only,
    3 loud on the last channel only."""
    out = bytearray()
    for s in range(nsamples):
        for c in range(ch):
            loud = code == 1 or (code == 2 and c == 0) or (
                code == 3 and c == ch - 1)
            if loud:
                b = 0x40 | ((i * 7 + s * 3 + c) & 0x3F)
                out += bytes([b]) * sw
            else:
                out += bytes([(i + s + c) & 3]) + b"\x00" * (sw - 1)
    return bytes(out)


class Engine:
    name = "cli"
    props = ("C15",)

    def level(self, prop):
        return "exploration"

    def rule(self, prop):
        return ("One evaluation = one drawn command line (any subset of -n -m "
                "-s -a -e -d -R -u -M -r -c -w -f -L --printf --time-format "
                "-q -o -O -j -T with drawn values; omitted options exercise "
                "the documented defaults), one drawn recording (raw file, wav "
                "file, or simulated stdin), one seeded schedule (policy, "
                "timer firings, stalls, pre-emption) and - only in the runs "
                "engine stopmix makes for C14 - a KeyboardInterrupt injected "
                "while main sleeps. "
                "auditok.cmdline.main runs whole under the scheduler. "
                "distinct = distinct hash of (argv shape, event sequence); "
                "non-trivial = at least one detection expected and at least "
                "one context switch with a message in flight.")

    def components(self):
        return {
            "real": ["auditok.cmdline.main (argparse, make_kwargs, "
                     "initialize_workers, main loop, interrupt handler)",
                     "auditok.workers (all started workers)", "auditok.core / "
                     "util / io / signal", "scratch files on tmpfs"],
            "simulated": ["time.sleep + threading.enumerate in cmdline -> "
                          "virtual clock / scheduler", "sys.stdin.buffer -> "
                          "SimPipe (with a real descriptor of an in-memory "
                          "file for code that goes below the file object)",
                          "signal.signal(SIGINT, ...) -> kept by the simulator", "queue / Thread / datetime / print / "
                          "wave+open proxies as in engine pipeline",
                          "Ctrl-C -> KeyboardInterrupt raised out of the "
                          "simulated sleep"],
            "stubbed": ["os.system for -C (recorded)"],
            "not_run": ["-E echo (PyAudio)", "-p/--save-image (matplotlib)",
                        "-D/--debug-file logging", "microphone input",
                        "ffmpeg/sox export"],
        }

    def assumptions(self, prop):
        return ["documented defaults are hard-coded in the oracle",
                "time fields are judged structurally (3 decimals / integer / "
                "zero-padded fields recomposing to the floor or ceiling of "
                "the value in milliseconds)",
                "formatter and argparse sub-claims are decided only on the "
                "values the end-to-end runs produce",
                "interrupted runs are generated only for C14 (engine "
                "stopmix): for eagerly loaded files such a run is judged "
                "against SOME block-prefix of the input (existential), for "
                "stdin / lazy files against a prefix between what had been "
                "read at the request and in the end"]

    def describe(self, sc):
        d = dict(sc)
        d["pattern"] = "".join(".A0L"[p] for p in sc["pattern"])
        return d

    # ------------------------------------------------------------ generate
    def gen(self, T, prop, tier, ctx=None, allow_interrupt=False):
        use_defaults_fmt = T.draw(5) == 0
        long_ = (not use_defaults_fmt) and T.draw(9) == 0
        if long_:
            # hours-long recording at 1-2 Hz with minute/hour-sized windows:
            # exercises the h/m/s fields of the time formats and values
            # beyond 24 h
            sw, ch, sr = 1, 1, T.choice([1, 2])
        elif use_defaults_fmt:
            sw, ch, sr = 2, 1, 16000
        else:
            sw = T.choice([2, 1, 4])
            ch = T.choice([1, 2, 3])
            sr = T.choice([100, 10, 16, 1000, 8000, 16000])
        # analysis window
        a_given = T.draw(4) != 0
        if long_:
            a_given = True
            bsz = T.choice([3600, 61, 4000, 21600, 3599, 777]) * sr
            a = C.block_dur_for(bsz, sr)
        elif a_given:
            bsz = T.choice([1, 2, 3, 5, 8])
            a = C.block_dur_for(bsz, sr)
        else:
            a = DEFAULTS["a"]
            bsz = int(a * sr)
            if bsz < 1:
                a_given = True
                bsz = 1
                a = C.block_dur_for(1, sr)
        w = bsz / sr
        opt = {}
        if a_given:
            opt["a"] = a
        # split parameters: benign grid; with the default window some are
        # omitted so that the documented defaults (0.2 / 5 / 0.3 s, i.e.
        # 20 / 500 / 30 windows of 10 ms) are exercised
        defaults_ok = (sr in (100, 1000, 16000)) and not a_given
        if defaults_ok:
            omit = [bool(T.draw(2)) for _ in range(3)]
            mn = 20 if omit[0] else T.between(1, 8)
            ms = 30 if omit[2] else T.draw(9)
            lo = max(mn, ms + 1)
            mx = 500 if omit[1] else T.between(lo, lo + 8)
            if not omit[0]:
                opt["n"] = (mn - 0.5) * w
            if not omit[1]:
                opt["m"] = (mx + 0.25) * w
            if not omit[2]:
                opt["s"] = 0 if ms == 0 else (ms + 0.25) * w
        else:
            p = C.gen_split_params(T, w)
            opt["n"], opt["m"], opt["s"] = (p["min_dur"], p["max_dur"],
                                            p["max_silence"])
        opt["d"] = bool(T.draw(2))
        opt["R"] = bool(T.draw(2))
        if sw == 1 or T.draw(3):
            # loud windows are 36..42 dB (1-byte samples) / >= 84 dB (wider),
            # quiet ones <= 10 dB: thresholds on both sides of those levels
            opt["e"] = T.choice([20.0, 12.5, 35.0, 39.5, 60.0, 86.0])
        if ch > 1 and T.draw(2):
            opt["u"] = T.choice(["0", "1", "-1", "mix", "avg", "any",
                                 "average"])
            if opt["u"] == "1" and ch < 2:
                opt["u"] = "0"
        kind = T.choice(["raw", "wav", "stdin", "raw_noext", "wav_noext"])
        large = bool(T.draw(2)) if kind != "stdin" else False
        nmax = 40 if tier == "quick" else 100
        if long_:
            nmax = 40
        if defaults_ok and ("n" not in opt or "s" not in opt):
            nmax = 140 if tier == "quick" else 700
        n = T.draw(nmax + 1)
        extra = T.draw(bsz) if T.draw(3) == 0 else 0
        if T.draw(5) == 0:
            opt["M"] = (T.draw(n * bsz + bsz + 1) + 0.25) / sr
        pf = T.choice(PRINTFS)
        tf = T.choice(TIMEFMTS)
        bad_tf = None
        quiet = T.draw(6) == 0
        save_o = T.draw(4) == 0
        save_O = T.draw(3) == 0
        join = None
        if T.draw(4) == 0:
            # (no exact .5 ties: how round() breaks them is not stated)
            join = T.choice([0, 0.4, 1, 1.4, 0.6, 2.75, 3.6, 7]) / sr
        outfmt = T.choice([None, None, "wav", "raw"])
        o_ext = T.choice(["wav", "raw"])
        O_ext = T.weighted([(4, "wav"), (4, "raw"), (1, "ogg")])
        T.draw(10)
        cmd = False   # -C is not part of the statement: not generated
        T.draw(5)
        debug_file = False   # --debug-file is not part of the statement
        wav_trailer = T.draw(3) == 0
        stale_tmp = T.draw(3) == 0
        if T.draw(25) == 0 and not save_O and not quiet:
            bad_tf = T.choice(BAD_TIMEFMTS)
        intr = None
        if T.draw(3) == 0:
            intr = {"kind": T.choice(["read", "put", "time", "timeout",
                                      "print", "sleep"]),
                    "j": 1 + T.draw(n + 3),
                    "time": T.choice([0.0, 0.5, 1.0, 1.5, 3.0, 10.0])}
        if not allow_interrupt:
            # C15 quantifies over options x recordings; Ctrl-C is C14's
            # subject (engine stopmix generates the interrupted cli runs)
            intr = None
        sc = {"prop": prop, "fmt": [sw, ch, sr, bsz], "n": n, "extra": extra,
              "kind": kind, "large": large, "opt": opt, "long": long_,
              "defaults_fmt": use_defaults_fmt, "printf": pf,
              "time_format": tf, "bad_time_format": bad_tf, "quiet": quiet,
              "save_o": save_o, "save_O": save_O, "join": join,
              "outfmt": outfmt, "o_ext": o_ext, "O_ext": O_ext, "cmd": cmd,
              "debug_file": debug_file, "wav_trailer": wav_trailer,
              "stale_tmp": stale_tmp,
              "interrupt": intr, "sched": gen_sched(T, tier, n)}
        if defaults_ok and any(k not in opt for k in "nms"):
            # documented defaults are 20 / 30 / 500 windows: use run lengths
            # around those boundaries
            codes = []
            cur = T.draw(2)
            while len(codes) < n:
                ln = T.choice([19, 20, 21, 29, 30, 31, 5, 45, 2])
                codes.extend([cur] * ln)
                cur ^= 1
            codes = codes[:n]
        else:
            codes = C.gen_pattern(T, n)
        if ch > 1:
            codes = [(c if not c else T.weighted([(4, 1), (1, 2), (1, 3)]))
                     for c in codes]
        sc["pattern"] = codes
        return sc

    # ------------------------------------------------------------- execute
    def run(self, sc, S, prop, want_trace=False):
        seams.bind()
        import auditok.cmdline as CM

        sw, ch, sr, bsz = sc["fmt"]
        bps = sw * ch
        opt = sc["opt"]
        if sc.get("long"):
            data = b"".join(
                (bytes([0x40 + (i % 32)]) if c else b"\x00") * bsz
                for i, c in enumerate(sc["pattern"]))
            if sc["extra"]:
                data += b"\x55" * sc["extra"]
        else:
            data = b"".join(make_cli_window(i, c, bsz, sw, ch)
                            for i, c in enumerate(sc["pattern"]))
            if sc["extra"]:
                data += make_cli_window(len(sc["pattern"]), 1, sc["extra"],
                                        sw, ch)
        tmp = C.scratch_dir(collect=True)
        seams.reset_captures(tmp)
        scfg = dict(sc["sched"])
        scfg["trace_files"] = _trace_files()
        nblocks = sc["n"] + 2
        scfg["fair_after"] = 20000 + 50 * nblocks
        scfg["budget"] = 20000 + 600 * nblocks
        sim = sched.Sim(S, scfg)
        stall = sources.StallPlan(tuple(scfg["stall"]), scfg["stall_durs"])
        seams.FILE_STALL["plan"] = stall
        res = {}
        old_stdin = sys.stdin
        try:
            argv = []
            kind = sc["kind"]
            pipe = None
            if kind == "stdin":
                pipe = sources.SimPipe(data, stall=stall)
                argv.append("-")
            else:
                if kind in ("wav", "wav_noext"):
                    inp = os.path.join(
                        tmp, "in.wav" if kind == "wav" else "in.bin")
                    if kind == "wav_noext":
                        argv += ["-f", "wav"]
                    C.write_wav(inp, data, sr, sw, ch,
                                trailer=bool(sc.get("wav_trailer")))
                else:
                    inp = os.path.join(
                        tmp, "in.raw" if kind == "raw" else "in.dat")
                    C.write_file(inp, data)
                    if kind == "raw_noext":
                        argv += ["-f", "raw"]
                argv.append(inp)
                if sc["large"]:
                    argv.append("-L")
            if kind not in ("wav", "wav_noext") and not sc["defaults_fmt"]:
                argv += ["-r", str(sr), "-c", str(ch), "-w", str(sw)]
            for k in ("a", "n", "m", "s", "e", "M"):
                if k in opt:
                    argv += ["-" + k, repr(float(opt[k]))]
            if opt.get("d"):
                argv.append("-d")
            if opt.get("R"):
                argv.append("-R")
            if "u" in opt:
                argv += ["-u", opt["u"]]
            if sc["printf"] is not None:
                argv += ["--printf", sc["printf"]]
            tf = sc["bad_time_format"] or sc["time_format"]
            if tf is not None:
                argv += ["--time-format", tf]
            if sc["quiet"]:
                argv.append("-q")
            o_tmpl = None
            if sc["save_o"]:
                o_tmpl = os.path.join(
                    tmp, "det_{id}_{start:.3f}_{end:.3f}." + sc["o_ext"])
                argv += ["-o", o_tmpl]
            O_path = None
            if sc["save_O"]:
                O_path = os.path.join(tmp, "stream." + sc["O_ext"])
                argv += ["-O", O_path]
                if (sc["outfmt"] or sc["O_ext"]) != "wav" \
                        and sc.get("stale_tmp"):
                    # an earlier, interrupted run left its temporary wav
                    # behind (different audio)
                    C.write_wav(O_path + ".wav", b"\x11" * (4 * sw * ch), sr,
                                sw, ch)
            if sc["join"] is not None:
                argv += ["-j", repr(float(sc["join"]))]
            if sc["outfmt"] is not None and (sc["save_o"] or sc["save_O"]):
                # an explicit -T decides the container of -O and -o outputs,
                # whatever their extensions say
                argv += ["-T", sc["outfmt"]]
                res["T"] = sc["outfmt"]
            if sc["cmd"]:
                argv += ["-C", "run {file}"]
            if sc.get("debug_file"):
                import logging
                lg = logging.getLogger("AUDITOK_LOGGER")
                for h in list(lg.handlers):
                    lg.removeHandler(h)
                    try:
                        h.close()
                    except Exception:
                        pass
                argv += ["--debug-file", os.path.join(tmp, "debug.log")]
            res["argv"] = argv

            intr = sc["interrupt"]
            if sc["bad_time_format"] or (sc["join"] is not None
                                         and not sc["save_O"]):
                intr = None

            def main():
                if pipe is not None:
                    sys.stdin = sources.FakeStdin(pipe)
                if intr is not None:
                    me = sim.me()

                    def fire():
                        sim.note("interrupt.request", intr["kind"])
                        res["intr_seq"] = sim.seq
                        if pipe is not None:
                            res["served_at_intr"] = len(pipe.served_bytes())
                        sim.interrupt(me, KeyboardInterrupt())
                    k = intr["kind"]
                    if k == "read":
                        op = "pipe.read" if pipe is not None else "file.read"
                        if pipe is None and not sc["large"]:
                            op = "get_nowait"  # tokenizer's stop check/read
                        sim.add_trigger(op, intr["j"], fire)
                    elif k == "put":
                        sim.add_trigger("put", intr["j"], fire)
                    elif k == "timeout":
                        sim.add_trigger("timeout", intr["j"], fire)
                    elif k == "print":
                        sim.add_trigger("print", intr["j"], fire)
                    elif k == "sleep":
                        sim.add_trigger("sleep", 1 + intr["j"] % 3, fire)
                    else:
                        sim.after(intr["time"], fire)
                try:
                    res["rc"] = CM.main(argv)
                except SystemExit as e:
                    res["rc"] = ("SystemExit", e.code)
                res["main_done_seq"] = sim.seq

            import gc
            gc.disable()
            failure = sim.run(main)
            out = {"violation": None, "error": None, "steps": sim.steps,
                   "simtime": sim.now, "sig": sim.sig,
               "states": sim.state_hashes, "faults": {},
                   "probes": {}, "nontrivial": False}
            for k_ in ("timeout_fired", "timer_fired_early", "stall",
                       "starve", "preempt", "pct_change", "gc"):
                if sim.counters.get(k_):
                    out["faults"][k_] = sim.counters[k_]
            h = hashlib.blake2b(repr(sim.log).encode(), digest_size=8)
            out["digest"] = h.hexdigest()
            if want_trace:
                out["trace"] = [list(e) for e in sim.log[-500:]]
            if sim.harness_error:
                out["error"] = sim.harness_error
                return out
            if intr is not None and "intr_seq" in res and any(
                    e[2] == "interrupt.delivered" for e in sim.log):
                out["faults"]["interrupt:" + intr["kind"]] = 1
            from .srcs import _harness_exc
            for t_ in sim.threads:
                if t_.exc is not None and _harness_exc(t_.exc):
                    out["error"] = ("gap of the simulated stdin: %r\n%s" % (
                        t_.exc, (t_.exc_tb or "")[-600:]))
                    return out
            try:
                out["violation"] = self._judge(sc, sim, res, failure, data,
                                               pipe, tmp, o_tmpl, O_path,
                                               intr, out)
            except Exception:
                import traceback
                out["error"] = "oracle crashed: " + traceback.format_exc()
            return out
        finally:
            sys.stdin = old_stdin
            res.clear()
            C.rm_scratch(tmp)

    # --------------------------------------------------------------- oracle
    def _api(self, sc, data):
        """The documented mapping options -> API call."""
        from auditok import AudioReader, split
        from auditok.io import BufferAudioSource
        sw, ch, sr, bsz = sc["fmt"]
        opt = sc["opt"]
        a = opt.get("a", DEFAULTS["a"])
        kw = {}
        if "M" in opt:
            kw["max_read"] = opt["M"]
        reader = AudioReader(BufferAudioSource(data, sr, sw, ch), block_dur=a,
                             **kw)
        u = opt.get("u")
        if u is not None:
            try:
                u = int(u)
            except ValueError:
                pass
        return list(split(
            reader, min_dur=opt.get("n", DEFAULTS["n"]),
            max_dur=opt.get("m", DEFAULTS["m"]),
            max_silence=opt.get("s", DEFAULTS["s"]),
            drop_trailing_silence=bool(opt.get("d")),
            strict_min_dur=bool(opt.get("R")),
            energy_threshold=opt.get("e", DEFAULTS["e"]), use_channel=u))

    def _judge(self, sc, sim, res, failure, data, pipe, tmp, o_tmpl, O_path,
               intr, out):
        def V(clause, detail, sig=None):
            return {"clause": clause, "detail": str(detail)[:1500],
                    "signature": sig or clause}
        sw, ch, sr, bsz = sc["fmt"]
        bps = sw * ch
        opt = sc["opt"]
        argv = res.get("argv")
        out["shape"] = "%s%s/%s%s%s" % (
            sc["kind"], "+L" if sc["large"] else "",
            "intr" if intr else "run", "/O" if sc["save_O"] else "",
            "/defaults" if len([k for k in "nms" if k not in opt]) else "")
        # ---- error paths
        main_t = sim.threads[0]
        rc = _status(res.get("rc"), main_t)
        if sc["join"] is not None and not sc["save_O"]:
            if failure is not None:
                return V("C15.2", "-j without -O: %r" % (failure,),
                         "C15.2:join_no_O_hang")
            if rc != 1:
                return V("C15.2", "-j without -O: exit status %r, expected 1"
                         % (res.get("rc"),), "C15.2:join_no_O_status")
            out["probes"]["join_without_O_status_1"] = 1
            return None
        if sc["bad_time_format"]:
            # "raises an error": an exception (out of main, or in the thread
            # that formats), or a non-zero exit status - and no detection
            # line.  Judged only when there is something to format.
            nv_ = len(data) // bps
            if "M" in opt:
                nv_ = min(nv_, round(opt["M"] * sr))
            if failure is not None or not self._api(sc, data[:nv_ * bps]):
                out["probes"]["bad_time_format_not_judged"] = 1
                return None
            raised = rc != 0 or any(t.exc is not None for t in sim.threads)
            if not raised or any("|" in ln or ln[:1].isdigit()
                                 for ln in seams.PRINTED):
                return V("C15.1", "unknown time-format directive %r accepted: "
                         "rc=%r, output %r" % (sc["bad_time_format"],
                                               res.get("rc"),
                                               seams.PRINTED[:3]),
                         "C15.1:bad_directive_accepted")
            out["probes"]["bad_time_format_rejected"] = 1
            return None
        # ---- termination / exceptions (clause 4)
        for t in sim.threads:
            if t is main_t and isinstance(t.exc, KeyboardInterrupt) \
                    and intr is not None:
                continue   # Ctrl-C propagated out of main after shutdown
            if t.exc is not None:
                return V("C15.4", "exception escaped %s: %r\n%s (argv %r)" % (
                    t.role, t.exc, (t.exc_tb or "")[-700:], argv),
                    "C15.4:" + type(t.exc).__name__)
        if failure is not None:
            kind, detail = failure
            return V("C15.4", "%s: %s (argv %r)" % (kind, detail, argv),
                     "C15.4:" + kind)
        interrupted_ = intr is not None and any(
            e[2] == "interrupt.delivered" for e in sim.log)
        is_ogg = sc["save_O"] and sc["O_ext"] == "ogg"
        c14_only = sc.get("_via") == "cli"
        if rc != 0 and not interrupted_ and not is_ogg and not c14_only:
            # (the status after Ctrl-C, or when the requested output could
            # not be encoded, is not fixed by the statement)
            return V("C15.1", "exit status %r, expected 0 (argv %r)" % (
                res.get("rc"), argv), "C15.1:status")
        if not isinstance(rc, int) and not c14_only:
            return V("C15.1", "exit status %r is not an integer" % (
                res.get("rc"),), "C15.1:status_type")
        # ---- which prefix was read?
        nvis = len(data) // bps
        if "M" in opt:
            nvis = min(nvis, round(opt["M"] * sr))
        visible = data[:nvis * bps]
        interrupted = intr is not None and "intr_seq" in res and any(
            e[2] == "interrupt.delivered" for e in sim.log)
        candidates = None

        def _served_now():
            if pipe is not None:
                return len(pipe.served_bytes())
            if sc["large"] and any(r._label.startswith("in.")
                                   for r in seams.READERS):
                nb = 0
                wav_counts = [r.served_frames * bps for r in seams.READERS
                              if r._label.startswith("in.")
                              and hasattr(r, "served_frames")]
                if wav_counts:
                    return max(wav_counts)
                for r in seams.READERS:
                    if r._label.startswith("in."):
                        nb = max(nb, getattr(r, "served_bytes", 0))
                return nb
            return None
        if not interrupted:
            base = data
        else:
            out["faults"]["interrupt:" + intr["kind"]] = 1
            base = None
            # "the part read up to that moment": some whole-block prefix of
            # the visible audio - at least what had been read when the
            # interrupt was requested (when the reads are observable), at
            # most what had been read in the end; the block in flight may or
            # may not be part of it
            bb = bsz * bps
            hi = _served_now()
            lo = res.get("served_at_intr")
            if pipe is not None and getattr(pipe, "_fd_priv", None) is not None:
                # the program reads through the descriptor: what has been
                # pulled from it (a BufferedReader of its own reads ahead)
                # says nothing about what the detector has read
                lo = None
            hi_b = len(visible) if hi is None else min(hi, len(visible))
            lo_b = 0 if lo is None else min(lo, len(visible))
            ks = range(lo_b // bb, -(-hi_b // bb) + 1)
            candidates = []
            for k in ks:
                c_ = visible[:k * bb]
                if c_ not in candidates:
                    candidates.append(c_)
            if hi_b == len(visible) and visible not in candidates:
                candidates.append(visible)
        if base is not None:
            E = self._api(sc, base)
            v = self._compare(sc, sim, res, E, base, tmp, o_tmpl, O_path, V,
                              interrupted, visible)
            if v is not None:
                return v
        else:
            ok = False
            first = None
            # the saved stream pins the prefix down exactly, when present
            for cand in reversed(candidates):
                E = self._api(sc, cand)
                v = self._compare(sc, sim, res, E, cand, tmp, o_tmpl, O_path,
                                  V, interrupted, visible)
                if v is None:
                    ok = True
                    base = cand
                    break
                if first is None:
                    first = v
            if not ok:
                first["detail"] = ("no block-prefix of the input explains the "
                                   "interrupted run; vs. whole input: "
                                   + first["detail"])
                return first
        nd = len(E)
        if nd == 0:
            out["probes"]["zero_detections"] = 1
        if interrupted and base is not None and len(base) < len(visible):
            out["probes"]["interrupted_before_end"] = 1
        if any(k not in opt for k in "nms"):
            out["probes"]["default_durations_used"] = 1
        if "a" not in opt:
            out["probes"]["default_analysis_window"] = 1
        if sc["defaults_fmt"]:
            out["probes"]["default_audio_format"] = 1
        if E and E[-1].end >= 86400:
            out["probes"]["time_value_beyond_24h"] = 1
        elif E and E[-1].end >= 3600:
            out["probes"]["time_value_beyond_1h"] = 1
        out["nontrivial"] = bool(nd >= 1 and
                                 sim.counters.get("switch_inflight", 0) >= 1)
        out["summary"] = {"argv": [a if not a.startswith("/") else
                                   os.path.basename(a) for a in argv],
                          "detections": nd}
        return None

    def _compare(self, sc, sim, res, E, base, tmp, o_tmpl, O_path, V,
                 interrupted, visible):
        sw, ch, sr, bsz = sc["fmt"]
        # ---- stdout (clauses 1, 2): what a real process would have printed
        # before exiting (daemon threads die when the last non-daemon thread
        # has ended)
        xs = sim.process_exit_seq()
        dr = sim.daemon_roles()
        lines = [ln for ln, (q, role) in zip(seams.PRINTED,
                                             seams.PRINT_META)
                 if not (role in dr and q > xs)]
        if len(lines) != len(seams.PRINTED):
            res["_lost_at_exit"] = len(seams.PRINTED) - len(lines)
        c14_only = sc.get("_via") == "cli"
        if sc["quiet"]:
            if lines and not c14_only:
                return V("C15.2", "-q given but %d line(s) printed: %r" % (
                    len(lines), lines[:3]), "C15.2:quiet")
        else:
            pf = sc["printf"] if sc["printf"] is not None \
                else DEFAULTS["printf"]
            # backslash sequences in the template: translated (what the
            # pinned tree does for \n \t \r) or literal - the statement
            # does not say
            pf_raw = pf
            pf = pf.replace("\\n", "\n").replace("\\t", "\t").replace(
                "\\r", "\r")
            tf = sc["time_format"] or DEFAULTS["time_format"]
            if len(lines) != len(E):
                return V("C15.1", "%d line(s) printed for %d detection(s): %r"
                         % (len(lines), len(E), lines[:6]), "C15.1:line_count")
            for i, (ln, r) in enumerate(zip(lines, E), 1):
                if c14_only:
                    break   # formatting is C15's business
                msg = _check_line(ln, pf, tf, i, r)
                if msg and pf_raw != pf and not _check_line(ln, pf_raw, tf,
                                                            i, r):
                    msg = None
                if msg:
                    return V("C15.1", "line %d %r: %s (detection start=%r "
                             "end=%r duration=%r, printf %r, time-format %r)"
                             % (i, ln, msg, r.start, r.end, r.duration, pf,
                                tf), "C15.1:line")
        # ---- files (clause 3)
        if o_tmpl is not None:
            names = [o_tmpl.format(id=i, start=r.start, end=r.end,
                                   duration=r.duration)
                     for i, r in enumerate(E, 1)]
            files = sorted(glob.glob(os.path.join(tmp, "det_*")))
            if files != sorted(names):
                return V("C15.3", "-o files %r != %r" % (
                    [os.path.basename(f) for f in files],
                    [os.path.basename(f) for f in sorted(names)]),
                    "C15.3:o_names")
            for nme, r in zip(names, E):
                d, hp = _read_audio(nme, sc["o_ext"], res.get("T"))
                if d != bytes(r.data) or (hp and hp != (sr, sw, ch)):
                    return V("C15.3", "-o file %s differs from its detection"
                             % os.path.basename(nme), "C15.3:o_data")
        if O_path is not None and sc["O_ext"] == "ogg":
            # needs an external encoder, none can be started: the warning
            # goes to stderr, stdout and the exit status are as usual
            # (checked above); the file itself is not judged
            pass
        elif O_path is not None:
            try:
                d, hp = _read_audio(O_path, sc["O_ext"], res.get("T"))
            except Exception as e:
                return V("C15.3", "-O file unreadable: %r" % (e,),
                         "C15.3:O_unreadable")
            if hp and hp != (sr, sw, ch):
                return V("C15.3", "-O header %r" % (hp,), "C15.3:O_header")
            if sc["join"] is not None:
                sil = b"\x00" * (round(sc["join"] * sr) * sw * ch)
                want = sil.join(bytes(r.data) for r in E)
                if d != want:
                    return V("C15.3", "-O/-j joined file has %d bytes, "
                             "expected %d (%d events)" % (len(d), len(want),
                                                          len(E)),
                             "C15.3:join_data")
            else:
                want = base[:len(visible)] if interrupted else visible
                if d != want:
                    return V("C15.3", "-O stream file has %d bytes, expected "
                             "%d" % (len(d), len(want)), "C15.3:O_data")
        if sc["cmd"]:
            if len(seams.SYSTEM_CALLS) != len(E):
                return V("C15.3", "-C ran %d command(s) for %d detection(s)"
                         % (len(seams.SYSTEM_CALLS), len(E)), "C15.3:cmd")
        return None


def _status(rc, main_t):
    """Process exit status as the shell would see it."""
    if main_t is not None and main_t.exc is not None:
        if isinstance(main_t.exc, KeyboardInterrupt):
            return 130
        return 1
    if rc is None:
        return 0
    if isinstance(rc, tuple) and rc and rc[0] == "SystemExit":
        c = rc[1]
        if c is None:
            return 0
        return c if isinstance(c, int) else 1
    return rc


def _read_audio(path, ext, explicit=None):
    """Audio of an output file.  When an explicit -T contradicts the
    extension, which of the two decides the container is not stated: the
    audio is accepted in either."""
    if explicit is not None and explicit != ext:
        try:
            return C.read_wav(path)
        except Exception:
            with open(path, "rb") as f:
                return f.read(), None
    if (explicit or ext) == "wav":
        return C.read_wav(path)
    with open(path, "rb") as f:
        return f.read(), None


_FIELD = {"%h": r"(?P<h>\d{2,})", "%m": r"(?P<m>\d{2})", "%s": r"(?P<s>\d{2})",
          "%i": r"(?P<i>\d{3})"}


def _check_time(text, tf, x):
    if tf == "%S":
        if not re.fullmatch(r"\d+\.\d{3}", text):
            return "%r is not seconds with three decimals" % text
        if abs(float(text) - x) >= 0.001:
            # (rounded or truncated to three decimals)
            return "%r is not %r to three decimals" % (text, x)
        return None
    # whole-millisecond value: truncation or rounding of 1000*x as computed
    # in floating point (0.3 s is 300 ms, not the 299 an exact-rational floor
    # of the binary value would give)
    import math
    from fractions import Fraction
    xq = Fraction(x) * 1000       # the stored value, exactly
    ms_ok = {math.floor(x * 1000), math.ceil(x * 1000),
             math.floor(xq), math.ceil(xq)}
    if tf == "%I":
        if not re.fullmatch(r"\d+", text):
            return "%r is not whole milliseconds" % text
        if int(text) not in ms_ok:
            return "%r is not %r in whole milliseconds" % (text, x)
        return None
    pat = re.escape(tf)
    for d, rx in _FIELD.items():
        pat = pat.replace(re.escape(d), rx)
    m = re.fullmatch(pat, text)
    if not m:
        return "%r does not match time format %r (zero-padded fields)" % (
            text, tf)
    h, mi, s, ms = (int(m.group(k)) for k in "hmsi")
    if mi >= 60 or s >= 60 or ms >= 1000:
        return "field out of range in %r" % text
    total = ((h * 60 + mi) * 60 + s) * 1000 + ms
    if total not in ms_ok:
        return "%r recomposes to %d ms, value is %r s" % (text, total, x)
    return None


def _check_line(line, pf, tf, i, r):
    if not line.endswith("\n"):
        return "no newline"
    line = line[:-1]
    # split the template into literal / placeholder pieces
    parts = re.split(r"(\{(?:id|start|end|duration)(?:![rs])?(?::[^}]*)?\})",
                     pf)
    rx = ""
    order = []
    specs = []
    for p in parts:
        mm = re.fullmatch(r"\{(id|start|end|duration)(![rs])?(:[^}]*)?\}", p)
        if mm:
            rx += "(.*?)"
            order.append(mm.group(1))
            specs.append((mm.group(3) or ":")[1:])
        else:
            rx += re.escape(p)
    m = re.fullmatch(rx, line, re.S)
    if not m:
        return "does not match the template"
    for name, text, spec in zip(order, m.groups(), specs):
        if spec:
            # undo the padding the spec adds (fill + alignment + width)
            ms_ = re.fullmatch(r"(?:(.)?([<>^]))?(0)?(\d+)?(d)?", spec)
            if ms_ is None:
                return "unsupported spec %r in the oracle" % spec
            fill = ms_.group(1) or ("0" if ms_.group(3) else " ")
            width = int(ms_.group(4) or 0)
            if len(text) < width:
                return "%s: %r is narrower than the requested width %d" % (
                    name, text, width)
            if len(text) == width:
                al = ms_.group(2) or (">" if (name == "id") else "<")
                if al == ">":
                    text = text.lstrip(fill)
                elif al == "<":
                    text = text.rstrip(fill)
                else:
                    text = text.strip(fill)
        if name == "id":
            if text.lstrip("0") != str(i) and text != str(i):
                return "id %r, expected %d" % (text, i)
        else:
            msg = _check_time(text, tf, {"start": r.start, "end": r.end,
                                         "duration": r.duration}[name])
            if msg:
                return "%s: %s" % (name, msg)
    return None

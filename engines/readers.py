"""Engine `readers` — C10 (framing) and C19 (recorder).

Operation histories on a real AudioReader built over each source kind, in
lock-step with a small reference model.  The injected "faults" are the ones
the properties quantify over: end of stream at an arbitrary offset relative
to block / hop / max_read boundaries (incl. empty and sub-block streams),
reads continuing past the end, rewind at an arbitrary point of the history.
"""
import os
import sys
import wave

from simkit import seams, sources
from simkit.tape import mix

from . import common as C

KINDS = ["bytes", "buffer", "sim", "raw_eager", "raw_lazy", "wav_eager",
         "wav_lazy", "stdin"]


# ------------------------------------------------------------------ model
class Model:
    """Reference framing + recorder model (C10 / C19)."""

    def __init__(self, data, bps, block, hop, max_samples):
        self.bps = bps
        self.block = block
        self.hop = hop  # None = no overlap
        vis = data if max_samples is None else data[: max_samples * bps]
        self.live = vis
        self.cur = vis          # data currently being framed
        self.k = 0              # blocks handed out since last (re)start
        self.pulled = 0         # high-water mark in samples (live phase)
        self.frozen = None      # bytes after first rewind
        self.ended = False

    def _block_at(self, k):
        n = len(self.cur) // self.bps
        if self.hop is None:
            a = k * self.block
            if a >= n:
                return None, n
            b = min(n, a + self.block)
            return self.cur[a * self.bps:b * self.bps], b
        if k == 0:
            if n == 0:
                return None, 0
            b = min(n, self.block)
            return self.cur[:b * self.bps], b
        new_from = self.block + (k - 1) * self.hop
        if new_from >= n:
            return None, n
        a = k * self.hop
        b = min(n, self.block + k * self.hop)
        return self.cur[a * self.bps:b * self.bps], b

    def read(self):
        if self.ended:
            return None
        blk, hw = self._block_at(self.k)
        if blk is None:
            self.ended = True
            if self.frozen is None:
                self.pulled = len(self.cur) // self.bps
            return None
        self.k += 1
        if self.frozen is None:
            self.pulled = max(self.pulled, hw)
        return blk

    def rewind(self):
        if self.frozen is None:
            self.frozen = self.live[: self.pulled * self.bps]
            self.cur = self.frozen
        self.k = 0
        self.ended = False


class Engine:
    name = "readers"
    props = ("C10", "C19")

    def level(self, prop):
        return "exploration"

    def rule(self, prop):
        return ("One evaluation = one drawn configuration (source kind, audio "
                "format, stream length around block/hop/max_read boundaries, "
                "block_dur, hop_dur, max_read, record flag) and one drawn "
                "operation history (%s) executed on the real AudioReader in "
                "lock-step with the reference model. distinct = distinct "
                "(kind, format, block, hop, max_read, length, history) "
                "signature; non-trivial = at least one non-empty read and at "
                "least one read answered after end of stream%s." % (
                    "open, read^k with k up to 6 past the end"
                    if prop == "C10" else
                    "read / rewind / data in any order, up to 40 ops",
                    "" if prop == "C10" else " or after a rewind"))

    def components(self):
        return {
            "real": ["auditok.util.AudioReader / Recorder and the wrapper "
                     "stack (_Recorder, _Limiter, _FixedSizeAudioReader, "
                     "_OverlapAudioReader)", "auditok.io sources: "
                     "BufferAudioSource, RawAudioSource, WaveAudioSource, "
                     "StdinAudioSource, get_audio_source/from_file (eager and "
                     "lazy)", "real scratch files (tmpfs)"],
            "simulated": ["sys.stdin.buffer -> SimPipe (blocking "
                          "BufferedReader contract)", "live source -> "
                          "SimAudioSource (logs reads)"],
            "stubbed": [], "not_run": ["PyAudio source"],
        }

    def assumptions(self, prop):
        return ["single-threaded: no schedule involved; the history and the "
                "EOF offset are the simulated dimensions",
                "durations are drawn so that floor()/round() of duration*rate "
                "is unambiguous",
                "hop_dur shorter than one sample is not generated "
                "(unspecified)"]

    def describe(self, sc):
        return sc

    # ------------------------------------------------------------ generate
    def gen(self, T, prop, tier, ctx=None):
        sw = T.choice([1, 2, 4])
        ch = T.choice([1, 2, 3])
        sr = T.choice([10, 8, 16, 100, 8000, 16000, 44100])
        kind = T.choice(KINDS)
        block = T.weighted([(6, None), (1, 0), (1, -1)])
        if block is None:
            block = T.between(1, 12)
        ovl = T.draw(3)  # 0 none, 1 hop<block, 2 other
        hop = None
        hop_mode = "none"
        if ovl == 1 and block and block > 1:
            hop = T.between(1, block - 1)
            hop_mode = "lt"
        elif ovl == 2:
            m = T.draw(4)
            if m == 3 and block and block > 0:
                # hop_dur < block_dur, yet both floor to the same number of
                # samples: the overlapping reader with zero overlap
                hop = block
                hop_mode = "lt_same"
            elif m == 0 and block and block > 0:
                hop = block
                hop_mode = "eq"
            elif m == 1 and block and block > 0:
                hop = block + T.between(1, 3)
                hop_mode = "gt"
                if T.draw(3) == 0:
                    # hop_dur > block_dur although both floor to the same
                    # number of samples: still to be rejected
                    hop = block
                    hop_mode = "gt_same"
        # stream length: around boundaries
        unit = max(1, block or 1)
        h = hop if (hop and hop_mode == "lt") else unit
        lk = T.draw(6)
        if lk == 0:
            length = 0
        elif lk == 1:
            length = T.between(0, unit)
        elif lk == 2:
            length = unit * T.between(1, 6) + T.choice([0, 1, unit - 1])
        elif lk == 3:
            length = unit + h * T.between(0, 8) + T.choice([0, 1, h - 1, -1])
        else:
            length = T.between(0, 80)
        length = max(0, length)
        huge = T.draw(160 if tier == "quick" else 60) == 1
        if huge:
            # beyond any plausible internal buffer threshold (> 1 MiB pulled)
            length = (1 << 20) // (sw * ch) + T.between(2000, 60000)
            block = T.between(20, 400)
            if prop == "C19":
                # many thousands of reads before the first rewind
                block = T.between(8, 60)
            if hop_mode == "lt":
                hop = T.between(block // 3, block - 1)
            elif hop_mode != "none":
                hop, hop_mode = None, "none"
        mr = None
        mr_frac = 0
        if T.draw(3) == 0:
            mk = T.draw(4)
            if mk == 0:
                mr = T.between(0, 3)
            elif mk == 1:
                mr = max(0, length + T.choice([-1, 0, 1, 5]))
            elif mk == 2:
                mr = unit * T.between(0, 4) + T.choice([0, 1, -1])
            else:
                mr = T.between(0, 90)
            mr = max(0, mr)
            mr_frac = T.choice([0, 0.25, -0.25, 0.4, 0.5, 0.5])
        exact = bool(T.draw(2))
        wav_trailer = T.draw(3) == 0
        closed_oserror = T.draw(2) == 0
        pre_open = T.weighted([(5, 0), (1, 1), (1, 2), (1, 3)])
        T.weighted([(5, 0), (1, 1), (1, 3), (1, 7)])
        # (a source handed over half-consumed is not generated any more:
        # what "the source audio" is then is not fixed by the statements)
        preroll = 0
        record = bool(T.draw(2)) if prop == "C19" else (T.draw(4) == 0)
        use_recorder_class = bool(T.draw(2))
        ops = []
        if prop == "C10":
            nreads = T.between(0, 6)
            ops = ["open"] + ["read"] * 0
            sc_extra = nreads
        else:
            nops = T.between(1, 40 if tier == "thorough" else 24)
            for _ in range(nops):
                ops.append(T.weighted([(6, "read"), (2, "rewind"),
                                       (1, "data"), (1, "read3"),
                                       (1, "readall")]))
            sc_extra = 0
        # C19: the history is carried out by two threads taking turns (never
        # concurrently) - e.g. a worker thread reads, the main thread rewinds
        # (disabled: the statement does not speak of threads, a
        # thread-affine recorder would satisfy it)
        cross_thread = prop == "C19" and T.draw(5) == 0 and False
        op_thread = [T.draw(2) for _ in range(len(ops))] if cross_thread \
            else []
        return {"prop": prop, "kind": kind, "fmt": [sw, ch, sr],
                "block": block, "hop": hop, "hop_mode": hop_mode,
                "exact_dur": exact,
                "length": length, "max_read_samples": mr,
                "max_read_frac": mr_frac, "record": record,
                "recorder_class": use_recorder_class, "ops": ops,
                "extra_reads": sc_extra, "pre_open_reads": pre_open,
                "wav_trailer": wav_trailer,
                "closed_oserror": closed_oserror,
                "cross_thread": cross_thread, "op_thread": op_thread,
                "preroll": preroll}

    # ------------------------------------------------------------- execute
    def _dur(self, samples, sr, exact):
        """A duration whose floor(d*sr) is `samples`, robustly."""
        d = samples / sr
        if exact and int(d * sr) == samples:
            return d
        return (samples + 0.5) / sr

    def run(self, sc, S, prop, want_trace=False):
        seams.bind()
        seams.reset_captures(None)
        seams.PROXY_FILES["on"] = True   # file reads go through the seam
        import auditok  # noqa: F401
        from auditok.util import AudioReader, Recorder
        from auditok.io import BufferAudioSource
        from auditok.exceptions import AudioIOError

        sw, ch, sr = sc["fmt"]
        bps = sw * ch
        length = sc["length"]
        big = False
        if length > 5000:
            unit_ = bytes(range(1, 252))
            data = (unit_ * (length * bps // len(unit_) + 1))[:length * bps]
            big = True
        else:
            data = b"".join(C.make_window(i, (i % 3) != 2, 1, sw, ch)
                            for i in range(length))
        block = sc["block"]
        hop = sc["hop"]
        trace = []
        out = {"violation": None, "error": None, "steps": 0, "simtime": 0.0,
               "faults": {}, "probes": {}, "nontrivial": False}
        if big:
            out["probes"]["stream_over_1MiB"] = 1

        def V(clause, detail, sig=None):
            out["violation"] = {"clause": clause, "detail": str(detail)[:1200],
                                "signature": sig or clause}
            if want_trace:
                out["trace"] = trace
            return out

        # ---- durations
        if block is not None and block > 0:
            bd = self._dur(block, sr, sc["exact_dur"])
            if int(bd * sr) != block:
                return self._skip(out)
        elif block == 0:
            bd = 0.4 / sr     # shorter than one sample
        else:
            bd = -1.0 / sr
        hd = None
        if hop is not None:
            if sc["hop_mode"] == "eq":
                hd = bd
            elif sc["hop_mode"] == "gt_same":
                bd = (block + 0.25) / sr
                hd = (block + 0.5) / sr
                if int(bd * sr) != block or int(hd * sr) != block \
                        or not hd > bd:
                    return self._skip(out)
            elif sc["hop_mode"] == "lt_same":
                bd = (block + 0.5) / sr
                hd = (block + 0.25) / sr
                if int(bd * sr) != block or int(hd * sr) != block \
                        or not hd < bd:
                    return self._skip(out)
            else:
                # the statement fixes floor() for the block only: the hop
                # duration is one on which floor and round agree
                hd = hop / sr
                if not (sc["exact_dur"] and hd * sr == hop):
                    hd = (hop + 0.25) / sr
                if int(hd * sr) != hop or round(hd * sr) != hop:
                    return self._skip(out)
                if sc["hop_mode"] == "lt" and not hd < bd:
                    return self._skip(out)
                if sc["hop_mode"] == "gt" and not hd > bd:
                    return self._skip(out)
        max_read = None
        max_samples = None
        if sc["max_read_samples"] is not None:
            max_samples = sc["max_read_samples"]
            max_read = (max_samples + sc["max_read_frac"]) / sr
            if max_read < 0:
                max_read = 0.0
            # the statement's formula, literally (Python round: exact .5
            # ties go to the even neighbour)
            max_samples = round(max_read * sr)
            fr = max_read * sr - int(max_read * sr)
            if abs(fr - 0.5) < 1e-6:
                # the statement's round() does not fix how exact or
                # near-exact ties are broken (banker's / half-up / exact
                # arithmetic): not judged
                out["probes"]["max_read_tie_not_judged"] = 1
                return self._skip(out)

        tmp = None
        fifo_feeder = None
        kind = sc["kind"]
        old_stdin = sys.stdin
        src_obj = None
        try:
            kw = {}
            if kind == "bytes":
                inp = data
                kw = {"sr": sr, "sw": sw, "ch": ch}
            elif kind in ("buffer", "sim"):
                if kind == "buffer":
                    inp = BufferAudioSource(data, sr, sw, ch)
                else:
                    inp = src_obj = sources.SimAudioSource(
                        data, sr, sw, ch,
                        closed_error=OSError if sc.get("closed_oserror")
                        else None)
                pr = min(sc.get("preroll", 0), length)
                if pr:
                    # the caller has already consumed a pre-roll from the
                    # source object before handing it to the reader: the
                    # reader's stream is what remains
                    inp.open()
                    inp.read(pr)
                    data = data[pr * bps:]
                    length -= pr
                    out["probes"]["source_with_preroll"] = 1
                    if src_obj is not None:
                        src_obj.served = []
                        src_obj.reads = 0
            elif kind == "raw_fifo":
                # a named pipe given as an eagerly loaded raw "file" (what
                # `auditok <(producer)` does): a real FIFO fed by a real
                # thread; the content delivered is deterministic, only its
                # timing is not, and eager loading reads until end of file
                tmp = C.scratch_dir()
                inp = os.path.join(tmp, "a.raw")
                if length > 20000:
                    return self._skip(out)
                fifo_feeder = _feed_fifo(inp, data)
                kw = {"sampling_rate": sr, "sample_width": sw, "channels": ch,
                      "large_file": False}
            elif kind in ("raw_eager", "raw_lazy"):
                tmp = C.scratch_dir()
                inp = os.path.join(tmp, "a.raw")
                C.write_file(inp, data)
                kw = {"sampling_rate": sr, "sample_width": sw, "channels": ch,
                      "large_file": kind == "raw_lazy"}
            elif kind in ("wav_eager", "wav_lazy"):
                tmp = C.scratch_dir()
                inp = os.path.join(tmp, "a.wav")
                C.write_wav(inp, data, sr, sw, ch,
                            trailer=bool(sc.get("wav_trailer")))
                kw = {"large_file": kind == "wav_lazy"}
            else:
                pipe = sources.SimPipe(data)
                sys.stdin = sources.FakeStdin(pipe)
                inp = "-"
                kw = {"sr": sr, "sw": sw, "ch": ch}

            # ---- construction (C10.1)
            expect_err = None
            if block is None or block <= 0:
                expect_err = "block"
            elif sc["hop_mode"] in ("gt", "gt_same"):
                expect_err = "hop"
            record = sc["record"]
            try:
                if record and sc["recorder_class"]:
                    reader = Recorder(inp, block_dur=bd, hop_dur=hd,
                                      max_read=max_read, **kw)
                else:
                    reader = AudioReader(inp, block_dur=bd, hop_dur=hd,
                                         record=record, max_read=max_read,
                                         **kw)
            except Exception as e:
                from .srcs import _harness_exc
                if _harness_exc(e):
                    raise
                # "rejected with an error": any exception type counts
                trace.append(["construct", type(e).__name__, str(e)[:80]])
                if expect_err is None and (
                        sc["hop_mode"] == "eq"
                        or (max_read is not None and max_read <= 0)):
                    # hop_dur == block_dur / max_read <= 0: whether these
                    # are accepted is not stated
                    out["probes"]["rejection_not_judged"] = 1
                    return self._skip(out)
                if expect_err is None:
                    return V(prop + ".1", "constructor rejected valid "
                             "block_dur=%r hop_dur=%r (block %r hop %r "
                             "samples at %d Hz): %r" % (bd, hd, block, hop,
                                                        sr, e),
                             prop + ".1:reject_valid")
                out["probes"]["rejected_" + expect_err] = 1
                out["sig"] = mix("rej", expect_err, block, hop, sr)
                out["steps"] = 1
                return out
            if expect_err is not None:
                if prop == "C10":
                    return V("C10.1", "constructor accepted %s: block_dur=%r "
                             "hop_dur=%r at %d Hz" % (
                                 "a block shorter than one sample"
                                 if expect_err == "block"
                                 else "hop_dur > block_dur", bd, hd, sr),
                             "C10.1:accept_invalid_" + expect_err)
                return self._skip(out)
            trace.append(["construct", kind, "block", block, "hop", hop,
                          "max", max_samples, "len", length, "rec", record])
            if prop == "C10":
                if getattr(reader, "block_size", block) != block:
                    return V("C10.1", "block_size %r != floor(block_dur*rate) "
                             "= %r" % (reader.block_size, block),
                             "C10.1:block_size")
                if sc["hop_mode"] in ("lt", "lt_same") \
                        and getattr(reader, "hop_size", hop) != hop:
                    return V("C10.1", "hop_size %r != %r" % (
                        reader.hop_size, hop), "C10.1:hop_size")

            m_hop = hop if sc["hop_mode"] in ("lt", "lt_same") else None
            model = Model(data, bps, block, m_hop, max_samples)
            # reads before open(): outcome not judged (must not hand out
            # data), but they must leave no trace once the reader is opened
            npre = sc.get("pre_open_reads", 0)
            if out["probes"].get("source_with_preroll"):
                npre = 0  # the caller has opened the source already
            for _ in range(npre):
                st_, got_ = self._call(reader.read)
                trace.append(["read-before-open", st_, _short(got_)])
                if st_ == "ok" and got_ is not None:
                    # a reader that opens itself on the first read: the
                    # statements say nothing about reads before open()
                    out["probes"]["auto_open_not_judged"] = 1
                    return self._skip(out)
                out["faults"]["read_before_open"] = \
                    out["faults"].get("read_before_open", 0) + 1
            reader.open()
            nonempty = 0
            after_end = 0
            if prop == "C10":
                v = self._run_c10(sc, reader, model, trace, V, out, data, bps,
                                  max_samples, src_obj)
            elif sc.get("cross_thread"):
                from simkit import sched as _s
                from simkit.tape import Tape as _Tape
                # (no liveness judgement here: the step budget is unbounded)
                xs = _s.Sim(_Tape(values=[]), {
                    "policy": "rr", "fair_after": 10 ** 12,
                    "budget": 10 ** 12, "keep_log": False})
                self._xsim, self._xthreads = xs, sc.get("op_thread", [])
                box = {}

                def xmain():
                    box["v"] = self._run_c19(
                        sc, reader, model, trace, V, out, record, src_obj,
                        full=data, bps=bps, max_samples=max_samples)
                try:
                    fail = xs.run(xmain)
                finally:
                    self._xsim, self._xthreads = None, ()
                if xs.harness_error:
                    out["error"] = xs.harness_error
                    return out
                if fail is not None:
                    return V("C19.2", "history carried out by two threads "
                             "taking turns: %r" % (fail,),
                             "C19.2:cross_thread_" + str(fail[0]))
                if xs.threads[0].exc is not None:
                    raise xs.threads[0].exc
                v = box.get("v")
                out["probes"]["history_across_two_threads"] = 1
            else:
                v = self._run_c19(sc, reader, model, trace, V, out, record,
                                  src_obj, full=data, bps=bps,
                                  max_samples=max_samples)
            try:
                reader.close()
            except Exception:
                pass
            if v is not None:
                return v
            out["sig"] = mix(kind, sw, ch, block, hop, max_samples, length,
                             record, tuple(sc["ops"]), sc["extra_reads"],
                             sc.get("pre_open_reads", 0))
            out["shape"] = "%s/%s/%s%s" % (
                kind, "ovl" if m_hop else "fixed",
                "max" if max_samples is not None else "nomax",
                "/rec" if record else "")
            if want_trace:
                out["trace"] = trace
            out["summary"] = {"ops": len(trace)}
            return out
        except Exception:
            import traceback
            out["error"] = "engine crashed: " + traceback.format_exc()
            return out
        finally:
            sys.stdin = old_stdin
            seams.PROXY_FILES["on"] = False
            if fifo_feeder is not None:
                _release_fifo(fifo_feeder)
            if tmp:
                C.rm_scratch(tmp)

    def _skip(self, out):
        out["probes"]["skipped_ambiguous_duration"] = 1
        out["sig"] = 0
        out["steps"] = 0
        return out

    def _call(self, fn):
        try:
            return ("ok", fn())
        except BaseException as e:  # noqa: B902
            from .srcs import _harness_exc
            if _harness_exc(e):
                raise      # a gap of the simulated stdin: ERROR, no verdict
            return ("exc", e)

    _xsim = None
    _xthreads = ()
    _cur_op = None

    def _exec(self, i, fn):
        """Run one operation of the history; with `cross_thread` some
        operations are carried out by a second simulated thread (strictly
        one after the other, never concurrently)."""
        sim = self._xsim
        if sim is None or i >= len(self._xthreads) or not self._xthreads[i] \
                or self._cur_op == "readall":
            # (a read-to-exhaustion is thousands of calls: stays in one
            # thread)
            return self._call(fn)
        from simkit import sched as _s
        box = {}

        def body():
            box["r"] = self._call(fn)
        st = sim.spawn("helper#%d" % i, body)
        sim.step("handover", st.role)
        if st.state != _s.DONE:
            sim.block("join", st, None)
        return box.get("r", ("exc", RuntimeError("helper thread died")))

    def _run_c10(self, sc, reader, model, trace, V, out, data, bps,
                 max_samples, src_obj):
        v = self._c10_pass(sc, reader, model, trace, V, out, data, bps,
                           max_samples, src_obj)
        return v

    def _c10_pass(self, sc, reader, model, trace, V, out, data, bps,
                  max_samples, src_obj):
        nonempty = 0
        seen_none = 0
        extra = sc["extra_reads"]
        visible = []
        k = 0
        while True:
            want = model.read()
            st, got = self._call(reader.read)
            trace.append(["read", k, st,
                          None if got is None else
                          (len(got) if isinstance(got, bytes) else repr(got))])
            out["steps"] += 1
            if st == "exc":
                cl = "C10.3" if want is None else "C10.2"
                sig = cl + ":" + type(got).__name__
                if want is None and isinstance(got, TypeError) \
                        and model.hop is not None:
                    sig = "C10.3:overlap_TypeError_after_end"
                return V(cl, "read #%d raised %r; expected %s" % (
                    k, got, "None" if want is None else
                    "%d bytes" % len(want)), sig)
            if got != want:
                if want is None:
                    return V("C10.3", "read #%d after exhaustion returned %r "
                             "instead of None" % (k, _short(got)),
                             "C10.3:data_after_end")
                if got is None:
                    return V("C10.2", "read #%d returned None, expected a "
                             "block of %d bytes" % (k, len(want)),
                             "C10.2:early_none")
                cl = "C10.2"
                if max_samples is not None and isinstance(got, bytes) and \
                        len(b"".join(visible)) + len(got) > \
                        max_samples * bps and model.hop is None:
                    cl = "C10.4"
                return V(cl, "read #%d returned %s, expected %s" % (
                    k, _short(got), _short(want)), cl + ":block")
            if want is not None:
                nonempty += 1
                visible.append(want)
            else:
                seen_none += 1
                if seen_none > extra:
                    break
            k += 1
            if k > 5000:
                break
        if seen_none > 1:
            out["faults"]["read_past_end"] = seen_none - 1
        out["faults"]["eof_cut"] = 1
        if src_obj is not None and max_samples is not None:
            pulled = len(src_obj.served_bytes()) // bps
            if pulled > max_samples:
                out["probes"]["limiter_pulled_beyond_max"] = 1
        if len(data) == 0:
            out["probes"]["empty_source"] = 1
        if model.hop is not None and nonempty <= 1:
            out["probes"]["overlap_sub_block_stream"] = 1
        out["nontrivial"] = nonempty >= 1 and seen_none >= 1
        return None

    def _run_c19(self, sc, reader, model, trace, V, out, record, src_obj,
                 full=None, bps=1, max_samples=None):
        nonempty = 0
        rewound = False
        degraded = False   # framing before the rewind deviates (C10's
        #                    business): only what C19 itself states is judged
        reads_after_rewind = 0
        src_reads_at_rewind = None
        for i, op in enumerate(sc["ops"]):
            out["steps"] += 1
            self._cur_op = op
            if op in ("read", "read3", "readall"):
                nrep = {"read": 1, "read3": 3, "readall": 10 ** 9}[op]
                for _ in range(nrep):
                    want = model.read()
                    st, got = self._exec(i, reader.read)
                    trace.append([op, i, st, None if got is None else
                                  (len(got) if isinstance(got, bytes)
                                   else repr(got))])
                    if degraded:
                        if st == "ok" and got is None and op == "readall":
                            break
                        if st == "exc":
                            break
                        continue
                    if st == "exc":
                        sig = "C19.2:" + type(got).__name__
                        if isinstance(got, TypeError) and model.hop is not None:
                            sig = "C19.2:overlap_TypeError_after_end"
                        if not rewound:
                            # framing before any rewind is C10's business
                            degraded = True
                            break
                        return V("C19.2", "op %d: read after rewind raised %r;"
                                 " expected %s" % (i, got, _short(want)), sig)
                    if got != want:
                        if not rewound:
                            degraded = True   # framing error: C10's business
                            if got is None:
                                break
                            continue
                        return V("C19.2", "op %d: replayed read returned %s, "
                                 "expected %s" % (i, _short(got),
                                                  _short(want)),
                                 "C19.2:replay_block")
                    if got is not None:
                        nonempty += 1
                        if rewound:
                            reads_after_rewind += 1
                    elif op == "readall":
                        break
                if nonempty > 2048:
                    out["probes"]["more_than_2048_reads"] = 1
            elif op == "rewind":
                if not record:
                    st, got = self._exec(i, lambda: reader.rewind())
                    trace.append(["rewind", i, st, repr(got)[:60]])
                    if st != "exc":
                        return V("C19.3", "non-recording reader: rewind() "
                                 "returned %r instead of failing" % (got,),
                                 "C19.3:rewind")
                    continue
                st, got = self._exec(i, lambda: reader.rewind())
                trace.append(["rewind", i, st, repr(got)[:60]])
                if st == "exc":
                    return V("C19.2", "op %d: rewind() raised %r" % (i, got),
                             "C19.2:rewind_raises")
                if degraded:
                    # still C19's own statement: the recording is a prefix
                    # of the source audio and never exceeds max_read
                    st2, d2 = self._call(lambda: reader.data)
                    if st2 == "ok" and isinstance(d2, bytes) \
                            and full is not None:
                        if max_samples is not None \
                                and len(d2) > max_samples * bps:
                            return V("C19.1", "recorded data has %d bytes, "
                                     "beyond max_read (%d samples = %d "
                                     "bytes)" % (len(d2), max_samples,
                                                 max_samples * bps),
                                     "C19.1:beyond_max_read")
                        if d2 != full[:len(d2)]:
                            return V("C19.1", "recorded data is not a prefix "
                                     "of the source audio",
                                     "C19.1:not_a_prefix")
                    out["probes"]["degraded_after_framing_mismatch"] = 1
                    return None
                model.rewind()
                if not rewound and src_obj is not None:
                    src_reads_at_rewind = src_obj.reads
                rewound = True
                out["faults"]["rewind"] = out["faults"].get("rewind", 0) + 1
            else:  # data
                st, got = self._exec(i, lambda: reader.data)
                trace.append(["data", i, st,
                              len(got) if isinstance(got, bytes)
                              else repr(got)[:60]])
                if not record:
                    if st != "exc":
                        return V("C19.3", "non-recording reader exposes data: "
                                 "%s" % (_short(got),), "C19.3:data")
                    continue
                if model.frozen is None:
                    if st != "exc":
                        return V("C19.1", "op %d: data before the first "
                                 "rewind returned %s instead of raising" % (
                                     i, _short(got)), "C19.1:early_data")
                    out["probes"]["data_before_rewind_raises"] = 1
                else:
                    if st == "exc":
                        return V("C19.1", "op %d: data after rewind raised %r"
                                 % (i, got), "C19.1:data_raises")
                    if got != model.frozen:
                        return V("C19.1", "op %d: data has %d bytes, expected "
                                 "the %d bytes consumed before the rewind; %s"
                                 % (i, len(got), len(model.frozen),
                                    _diff(got, model.frozen)),
                                 "C19.1:data_mismatch")
        if src_obj is not None and src_reads_at_rewind is not None and \
                src_obj.reads != src_reads_at_rewind:
            out["probes"]["live_source_read_after_rewind"] = 1
        if rewound and model.frozen is not None:
            if len(model.frozen) == 0:
                out["probes"]["rewind_before_any_read"] = 1
            if len(model.frozen) < len(model.live):
                out["probes"]["rewind_after_partial_read"] = 1
            if model.hop is not None:
                out["probes"]["rewind_with_overlap"] = 1
        out["nontrivial"] = bool(
            (record and rewound and reads_after_rewind >= 1)
            or (not record and nonempty >= 1))
        return None


def _feed_fifo(path, data):
    import threading
    os.mkfifo(path)

    def feed():
        try:
            fd = os.open(path, os.O_WRONLY)   # blocks until a reader opens
        except OSError:
            return
        try:
            view = memoryview(data)
            i = 0
            sizes = (7, 3, 64, 1, 500)
            k = 0
            while i < len(view):
                n = sizes[k % len(sizes)]
                k += 1
                os.write(fd, view[i:i + n])
                i += n
        except OSError:
            pass
        finally:
            try:
                os.close(fd)
            except OSError:
                pass
    t = threading.Thread(target=feed, daemon=True)
    from simkit import sched as _s
    _s._ORIG_START(t)
    return (t, path)


def _release_fifo(feeder):
    t, path = feeder
    if t.is_alive():
        # nobody opened the read end (or stopped reading): unblock the writer
        try:
            fd = os.open(path, os.O_RDONLY | os.O_NONBLOCK)
            try:
                while os.read(fd, 1 << 16):
                    pass
            except OSError:
                pass
            os.close(fd)
        except OSError:
            pass
    from simkit import sched as _s
    _s._ORIG_JOIN(t, 2.0)


def _short(b):
    if isinstance(b, (bytes, bytearray)):
        return "<%d bytes %s%s>" % (len(b), b[:12].hex(),
                                    "..." if len(b) > 12 else "")
    return repr(b)[:80]


def _diff(a, b):
    n = min(len(a), len(b))
    for i in range(n):
        if a[i] != b[i]:
            return "first differing byte at %d" % i
    return "common prefix %d bytes" % n

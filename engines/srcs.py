"""Engine `srcs` — C11.

One audio behind the four source kinds (memory buffer, raw file, wav file,
simulated standard input), driven by the same drawn operation history and
compared after every operation with a reference cursor model.  Injected
faults: end of stream at any offset (incl. empty audio), reads past the end,
close / reopen / rewind / seek at any point of the history, reads on a closed
source.
"""
import os
import sys
import wave
from fractions import Fraction

from simkit import seams, sources
from simkit.tape import mix

from . import common as C


class Engine:
    name = "srcs"
    props = ("C11",)

    def level(self, prop):
        return "exploration"

    def rule(self, prop):
        return ("One evaluation = one drawn audio (format, length incl. 0) "
                "and one drawn operation history (open, close, read(n) with n "
                "in {0, small, block, beyond the end, negative, None}, buffer "
                "position/position_s/position_ms assignments of any sign in "
                "and out of range, rewind, getters; up to 40 ops) applied in "
                "lock-step to BufferAudioSource, RawAudioSource, "
                "WaveAudioSource (scratch files) and StdinAudioSource "
                "(simulated pipe) and to the reference model. distinct = "
                "distinct (format, length, history) signature; non-trivial = "
                "at least one non-empty read and at least one of: read past "
                "the end, read on a closed source, seek, rewind, reopen.")

    def components(self):
        return {
            "real": ["auditok.io.BufferAudioSource / RawAudioSource / "
                     "WaveAudioSource / StdinAudioSource", "stdlib wave, "
                     "real scratch files (tmpfs)"],
            "simulated": ["sys.stdin.buffer -> SimPipe (returns exactly n "
                          "bytes unless the stream ends)"],
            "stubbed": [], "not_run": ["PyAudioSource"],
        }

    def assumptions(self, prop):
        return ["single-threaded; the operation history and the EOF offset "
                "are the simulated dimensions",
                "reopening file / stdin sources is not judged (unspecified)",
                "seconds / milliseconds positions: any start sample within "
                "one sample period of the requested instant is accepted"]

    def describe(self, sc):
        return sc

    def gen(self, T, prop, tier, ctx=None):
        sw = T.choice([1, 2, 4])
        ch = T.choice([1, 2, 3])
        sr = T.choice([10, 8, 16, 100, 1000, 8000, 16000, 44100])
        length = T.weighted([(1, 0), (2, None), (1, 1)])
        if length is None:
            length = T.between(0, 60)
        if T.draw(60) == 0:
            length = T.between(2000, 70000)   # occasionally a long buffer
        nops = T.between(1, 40 if tier == "thorough" else 22)
        ops = [["open"]] if T.draw(8) else []
        for _ in range(nops):
            k = T.weighted([(8, "read"), (2, "pos"), (1, "pos_s"),
                            (1, "pos_ms"), (1, "rewind"), (1, "close"),
                            (2, "open"), (1, "getters")])
            if k == "read":
                n = T.weighted([(3, 1), (2, 2), (2, 3), (2, 7), (1, 0),
                                (2, 1000), (1, -1), (1, -7), (1, None),
                                (2, "rem")])
                ops.append(["read", n])
            elif k == "pos":
                p = T.weighted([(3, "in"), (2, "neg"), (1, "end"),
                                (1, "over"), (1, "under")])
                ops.append(["pos", p, T.draw(64)])
            elif k == "pos_s":
                ops.append(["pos_s", T.between(-70, 70), T.choice([1, 2, 4, 3, 10])])
            elif k == "pos_ms":
                ops.append(["pos_ms", T.between(-70, 70),
                            T.choice([1, 10, 100, 1000, 37]), T.draw(4),
                            T.draw(2000)])
            else:
                ops.append([k])
        return {"prop": prop, "fmt": [sw, ch, sr], "length": length,
                "ops": ops, "wav_trailer": T.draw(3) == 0}

    def run(self, sc, S, prop, want_trace=False):
        from auditok.exceptions import AudioIOError
        from auditok.io import (BufferAudioSource, RawAudioSource,
                                StdinAudioSource, WaveAudioSource)
        sw, ch, sr = sc["fmt"]
        bps = sw * ch
        L = sc["length"]
        if L > 1000:
            unit_ = bytes(range(1, 252))
            data = (unit_ * (L * bps // len(unit_) + 1))[:L * bps]
        else:
            data = b"".join(C.make_window(i, (i % 4) != 3, 1, sw, ch)
                            for i in range(L))
        out = {"violation": None, "error": None, "steps": 0, "simtime": 0.0,
               "faults": {}, "probes": {}, "nontrivial": False}
        trace = []

        def V(clause, detail, sig=None):
            out["violation"] = {"clause": clause, "detail": str(detail)[:1200],
                                "signature": sig or clause}
            if want_trace:
                out["trace"] = trace
            return out

        tmp = C.scratch_dir()
        old_stdin = sys.stdin
        seams.bind()
        seams.reset_captures(None)
        seams.PROXY_FILES["on"] = True   # file reads go through the seam
        try:
            rawp = os.path.join(tmp, "a.raw")
            C.write_file(rawp, data)
            wavp = os.path.join(tmp, "a.wav")
            C.write_wav(wavp, data, sr, sw, ch,
                        trailer=bool(sc.get("wav_trailer")))
            pipe = sources.SimPipe(data)
            sys.stdin = sources.FakeStdin(pipe)
            srcs = {
                "buffer": BufferAudioSource(data, sr, sw, ch),
                "raw": RawAudioSource(rawp, sr, sw, ch),
                "wav": WaveAudioSource(wavp),
                "stdin": StdinAudioSource(sr, sw, ch),
            }
            # (sys.stdin stays the simulated pipe for the whole run: a source
            # may look it up at open() time rather than at construction)
            for k, s in srcs.items():
                if (s.sr, s.sw, s.ch) != (sr, sw, ch):
                    return V("C11.1", "%s source reports format %r" % (
                        k, (s.sr, s.sw, s.ch)), "C11.1:format")
            # model state per kind
            st = {k: {"cur": 0, "open": False, "live": True,
                      "ever_closed": False} for k in srcs}
            fl = {"nonempty": 0, "past_end": 0, "closed_read": 0, "seek": 0,
                  "rewind": 0, "reopen": 0}

            def call(fn):
                try:
                    return "ok", fn()
                except Exception as e:
                    if _harness_exc(e):
                        raise
                    return "exc", e

            for i, op in enumerate(sc["ops"]):
                out["steps"] += 1
                name = op[0]
                for kind, s in srcs.items():
                    m = st[kind]
                    if not m["live"]:
                        continue
                    if kind == "buffer" and m["open"] and m["cur"] is None \
                            and name not in ("open", "close", "rewind"):
                        # unspecified start after a seek on a closed source:
                        # adopt what the source reports
                        m["cur"] = s.position
                    if name == "open" and m["open"]:
                        continue   # open() on an open source: unspecified
                    if name == "open":
                        if m["ever_closed"] and kind == "stdin":
                            # what a reopened stdin source returns is not
                            # judged (the statement is silent on where the
                            # stream stands, read-ahead makes it fuzzy) - but
                            # "reads on an open source" must not raise: if
                            # the SAME source opens again and reports itself
                            # open, a read must work
                            r2 = call(s.open)
                            opened = r2[0] == "ok"
                            if opened and hasattr(s, "is_open"):
                                r3 = call(s.is_open)
                                opened = r3[0] == "ok" and bool(r3[1])
                            if opened:
                                r2 = call(lambda: s.read(1))
                                if r2[0] == "exc":
                                    return V("C11.1", "standard-input source "
                                             "closed, opened again (is_open() "
                                             "true): read raises %r" % (
                                                 r2[1],),
                                             "C11.1:stdin_unusable_after_close")
                            m["live"] = False
                            continue
                        if m["ever_closed"] and kind in ("raw", "wav"):
                            m["live"] = False  # reopening a file: not judged
                            continue
                        # (standard input cannot be rewound: a reopened stdin
                        # source simply goes on where the stream stands)
                        r = call(s.open)
                        if r[0] == "exc":
                            return V("C11.2", "%s.open() raised %r" % (
                                kind, r[1]), "C11.2:open_raises")
                        if m["ever_closed"]:
                            fl["reopen"] += 1
                        m["open"] = True
                    elif name == "close":
                        r = call(s.close)
                        if r[0] == "exc":
                            return V("C11.2", "%s.close() raised %r" % (
                                kind, r[1]), "C11.2:close_raises")
                        m["open"] = False
                        m["ever_closed"] = True
                        if kind == "buffer":
                            m["cur"] = 0
                    elif name == "read":
                        n = op[1]
                        rem = L - (m["cur"] or 0)
                        if n == "rem":
                            n = rem
                        if (n is None or n < 0) and kind == "stdin":
                            continue
                        r = call(lambda: s.read(n))
                        trace.append([i, kind, "read", n, r[0],
                                      _short(r[1])])
                        if not m["open"]:
                            fl["closed_read"] += 1
                            if r[0] == "ok":
                                return V("C11.2", "%s: read(%r) on a source "
                                         "that is not open returned %s "
                                         "instead of raising an I/O error" % (
                                             kind, n, _short(r[1])),
                                         "C11.2:closed_read_returns")
                            e = r[1]
                            if not (isinstance(e, (AudioIOError, OSError)) or (
                                    isinstance(e, ValueError)
                                    and "closed" in str(e).lower())):
                                return V("C11.2", "%s: read(%r) on a source "
                                         "that is not open raised %r, not an "
                                         "I/O error" % (kind, n, e),
                                         "C11.2:closed_read_type")
                            continue
                        if r[0] == "exc":
                            return V("C11.1", "%s: read(%r) raised %r at "
                                     "sample %d of %d" % (kind, n, r[1],
                                                          m["cur"], L),
                                     "C11.1:read_raises")
                        if n is None or n < 0:
                            take = rem
                        else:
                            take = min(n, rem)
                        want = data[m["cur"] * bps:(m["cur"] + take) * bps]
                        if not want:
                            want = None
                            fl["past_end"] += 1 if rem == 0 else 0
                        got = r[1]
                        if n == 0 and rem > 0 and isinstance(
                                got, (bytes, bytearray)) and len(got) == 0:
                            # zero samples requested while audio remains:
                            # an empty chunk is min(0, remaining) samples
                            continue
                        if got != want:
                            if isinstance(got, (bytes, bytearray)) \
                                    and len(got) == 0:
                                return V("C11.1", "%s: read(%r) returned an "
                                         "empty bytes object (cursor %d of "
                                         "%d)" % (kind, n, m["cur"], L),
                                         "C11.1:empty_bytes")
                            return V("C11.1", "%s: read(%r) at sample %d of "
                                     "%d returned %s, expected %s" % (
                                         kind, n, m["cur"], L, _short(got),
                                         _short(want)), "C11.1:chunk")
                        if want is not None:
                            m["cur"] += take
                            fl["nonempty"] += 1
                    elif kind != "buffer":
                        continue
                    elif not m["open"]:
                        if name == "pos" and op[1] in ("in", "end"):
                            # moving the cursor of a source that is not open:
                            # where a later read starts is unspecified until
                            # close() / rewind() / a seek on the open source
                            p_ = (op[2] * 1009) % (L + 1) \
                                if op[1] == "in" else L
                            call(lambda: setattr(s, "position", p_))
                            m["cur"] = None
                            fl["seek"] += 1
                            out["probes"]["seek_while_closed"] = 1
                        continue
                    elif name == "rewind":
                        r = call(s.rewind)
                        if r[0] == "exc":
                            return V("C11.4", "rewind() raised %r" % (r[1],),
                                     "C11.4:rewind_raises")
                        m["cur"] = 0
                        fl["rewind"] += 1
                    elif m["cur"] is None and name in ("getters",):
                        continue
                    elif name == "getters":
                        p = s.position
                        if p != m["cur"]:
                            return V("C11.3", "position reads %r after %d "
                                     "samples were consumed" % (p, m["cur"]),
                                     "C11.3:position_getter")
                        ps = s.position_s
                        if abs(float(ps) - m["cur"] / sr) >= 1.0 / sr:
                            return V("C11.3", "position_s reads %r at sample "
                                     "%d (rate %d)" % (ps, m["cur"], sr),
                                     "C11.3:position_s_getter")
                        pm = s.position_ms
                        exact = m["cur"] * 1000 / sr
                        if not (abs(pm - exact) <= 1.0):
                            return V("C11.3", "position_ms reads %r at sample "
                                     "%d (rate %d)" % (pm, m["cur"], sr),
                                     "C11.3:position_ms_getter")
                    elif name == "pos":
                        mode, x = op[1], op[2]
                        if mode == "in":
                            p = (x * 1009) % (L + 1)
                        elif mode == "neg":
                            p = -((x * 1009) % (L + 1))
                        elif mode == "end":
                            p = L
                        elif mode == "over":
                            p = L + 1 + x
                        else:
                            p = -(L + 1 + x)
                        r = call(lambda: setattr(s, "position", p))
                        trace.append([i, kind, "position=", p, r[0],
                                      _short(r[1])])
                        fl["seek"] += 1
                        tgt = p if p >= 0 else L + p
                        if 0 <= tgt <= L:
                            if r[0] == "exc":
                                return V("C11.3", "position = %d (length %d) "
                                         "raised %r" % (p, L, r[1]),
                                         "C11.3:position_raises")
                            m["cur"] = tgt
                        else:
                            if not (r[0] == "exc"
                                    and isinstance(r[1], IndexError)):
                                return V("C11.3", "position = %d out of range "
                                         "(length %d): %s instead of "
                                         "IndexError" % (p, L, _short(r[1])),
                                         "C11.3:position_range")
                        if not (0 <= tgt <= L):
                            # rejected: where the cursor is afterwards is
                            # not fixed, but it must be a position
                            if not (0 <= s.position <= L):
                                return V("C11.3", "after the rejected "
                                         "position = %d the cursor reads %r "
                                         "(length %d)" % (p, s.position, L),
                                         "C11.3:position_after_reject")
                            m["cur"] = s.position
                        elif s.position != m["cur"]:
                            return V("C11.3", "after position = %d (length "
                                     "%d) position reads %r, expected %d" % (
                                         p, L, s.position, m["cur"]),
                                     "C11.3:position_set")
                    elif name in ("pos_s", "pos_ms"):
                        xt = op[1] / op[2] if name == "pos_s" else \
                            op[1] * 37 / op[2] % 90 - 20
                        if name == "pos_s":
                            t = xt / sr
                            attr = "position_s"
                            val = t
                            xq = Fraction(t) * sr
                        else:
                            span = (L + 3) * 1000 // sr + 2
                            mode = op[3] if len(op) > 3 else 0
                            if mode == 0:
                                msv = int(round(xt * 1000 / sr))
                            elif mode == 1:      # any millisecond in range
                                msv = op[4] % (2 * span + 1) - span
                            else:                # whole-sample milliseconds
                                k = op[4] % (2 * L + 5) - (L + 2)
                                msv = k * 1000 // sr if (k * 1000) % sr == 0 \
                                    else op[4] % (2 * span + 1) - span
                            t = msv / 1000.0
                            attr = "position_ms"
                            val = msv
                            xq = Fraction(msv * sr, 1000)
                        before = m["cur"]
                        r = call(lambda: setattr(s, attr, val))
                        trace.append([i, kind, attr + "=", val, r[0],
                                      _short(r[1])])
                        fl["seek"] += 1
                        x = float(xq)  # requested instant in samples (exact)
                        if xq < 0 and xq > -1:
                            # sub-sample negative instant: unspecified
                            m["cur"] = s.position
                            continue
                        tgt = x if x >= 0 else L + x
                        tgtq = xq if xq >= 0 else L + xq   # exact
                        if r[0] == "exc":
                            if not isinstance(r[1], IndexError):
                                return V("C11.3", "%s = %r raised %r" % (
                                    attr, val, r[1]), "C11.3:seek_exc_type")
                            if tgtq.denominator == 1 and 0 <= tgtq <= L:
                                return V("C11.3", "%s = %r (sample %.3f of "
                                         "%d) raised IndexError although in "
                                         "range" % (attr, val, tgt, L),
                                         "C11.3:seek_in_range_raises")
                            if not (0 <= s.position <= L):
                                return V("C11.3", "after the rejected %s "
                                         "assignment the cursor reads %r "
                                         "(length %d)" % (attr, s.position,
                                                          L),
                                         "C11.3:position_after_reject")
                            m["cur"] = s.position
                            continue
                        # accepted: must be within one sample of the instant
                        if tgtq <= -1 or tgtq >= L + 1:
                            return V("C11.3", "%s = %r (sample %.3f, length "
                                     "%d) accepted instead of IndexError" % (
                                         attr, val, tgt, L),
                                     "C11.3:seek_range")
                        p = s.position
                        if xq.denominator == 1:
                            # the instant is exactly a sample boundary: no
                            # rounding question, the read must start there
                            want_p = int(xq) if xq >= 0 else L + int(xq)
                            if p != want_p:
                                return V("C11.3", "%s = %r is exactly sample "
                                         "%d (rate %d) but the next read "
                                         "starts at sample %d" % (
                                             attr, val, want_p, sr, p),
                                         "C11.3:seek_exact")
                        if not (abs(p - tgtq) < 1 and 0 <= p <= L):
                            return V("C11.3", "%s = %r: next read starts at "
                                     "sample %d, requested instant is sample "
                                     "%.3f" % (attr, val, p, tgt),
                                     "C11.3:seek_target")
                        m["cur"] = p
            out["faults"] = {k: v for k, v in (
                ("read_past_end", fl["past_end"]),
                ("read_when_closed", fl["closed_read"]),
                ("seek", fl["seek"]), ("rewind", fl["rewind"]),
                ("close_reopen", fl["reopen"])) if v}
            if L == 0:
                out["probes"]["empty_audio"] = 1
            out["nontrivial"] = fl["nonempty"] >= 1 and (
                fl["past_end"] + fl["closed_read"] + fl["seek"]
                + fl["rewind"] + fl["reopen"]) >= 1
            out["sig"] = mix(sw, ch, sr, L, repr(sc["ops"]))
            out["shape"] = "len%s" % ("0" if L == 0 else
                                      "1-9" if L < 10 else
                                      "10+" if L <= 1000 else "2000+")
            out["summary"] = {"ops": len(sc["ops"])}
            if want_trace:
                out["trace"] = trace
            for s in srcs.values():
                try:
                    s.close()
                except Exception:
                    pass
            return out
        except Exception:
            import traceback
            out["error"] = "engine crashed: " + traceback.format_exc()
            return out
        finally:
            sys.stdin = old_stdin
            seams.PROXY_FILES["on"] = False
            C.rm_scratch(tmp)


def _harness_exc(e):
    """An AttributeError / TypeError / NotImplementedError raised from inside
    the simulated stdin objects is a gap of the harness, not a verdict."""
    import io as _io
    if not isinstance(e, (AttributeError, NotImplementedError,
                          _io.UnsupportedOperation)):
        return False
    tb = e.__traceback__
    last = None
    while tb is not None:
        last = tb
        tb = tb.tb_next
    fn = last.tb_frame.f_code.co_filename if last is not None else ""
    return ("/simkit/" in fn or "SimPipe" in str(e) or "FakeStdin" in str(e)
            or "simulated stdin" in str(e))


def _short(b):
    if isinstance(b, (bytes, bytearray)):
        return "<%d bytes %s%s>" % (len(b), bytes(b[:10]).hex(),
                                    "..." if len(b) > 10 else "")
    return repr(b)[:80]

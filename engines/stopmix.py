"""Engine `stopmix` — C14.

C14 speaks of "the stop_all / Ctrl-C path": four of five runs are `pipeline`
runs with a stop_all() injected at a drawn / enumerated trigger position, one
of five is a `cli` run of auditok.cmdline.main with a KeyboardInterrupt
injected while main sleeps (always interrupted; judged with the C14 reading
of the cli oracle: printed detections / files == those of the prefix read,
exit status 0, all threads end).
"""
from . import cli as _cli
from . import pipeline as _pipeline


class Engine:
    name = "stopmix"
    props = ("C14",)

    def __init__(self):
        self.p = _pipeline.Engine()
        self.c = _cli.Engine()

    def level(self, prop):
        return "fault_enumeration"

    def rule(self, prop):
        return (self.p.rule("C14") + " One run in five is instead a whole "
                "auditok.cmdline.main run (engine cli) with a "
                "KeyboardInterrupt injected while main sleeps, at a drawn "
                "trigger (after read j, after inbox put j, after print j, "
                "after timeout j, at virtual time t, at the k-th sleep).")

    def components(self):
        d = self.p.components()
        d["real"] = d["real"] + ["auditok.cmdline.main interrupt handler "
                                 "(in the cli share of the runs)"]
        d["simulated"] = d["simulated"] + [
            "Ctrl-C -> KeyboardInterrupt raised out of cmdline's time.sleep "
            "(only there: a program that never sleeps is never interrupted, "
            "its runs are not C14 runs); a SIGINT handler installed through "
            "the signal seam is run instead of raising"]
        return d

    def assumptions(self, prop):
        return self.p.assumptions(prop) + [
            "an interrupt during initialize_workers()/start_all() is outside "
            "the property's quantifier and not generated"]

    def describe(self, sc):
        if sc.get("_via") == "cli":
            d = self.c.describe(sc)
            d["_via"] = "cli"
            return d
        return self.p.describe(sc)

    def extra_evidence(self, prop, tier, total):
        return self.p.extra_evidence(prop, tier, total)

    def gen(self, T, prop, tier, ctx=None):
        if ctx is not None and tier == "thorough":
            # keep the enumeration of stop positions intact: the last fifth
            # of every group's slots are the cli runs
            slot = ctx["index"] % _pipeline.GROUP
            k = T.force(5, 4 if slot >= _pipeline.GROUP - 51 else 0)
        else:
            k = T.draw(5)
        if k == 4:
            sc = self.c.gen(T, "C15", tier, ctx, allow_interrupt=True)
            sc["_via"] = "cli"
            sc["prop"] = "C14"
            if sc["interrupt"] is None:
                sc["interrupt"] = {"kind": "read", "j": 1 + sc["n"] // 2,
                                   "time": 0.5}
            # error paths are C15's business
            sc["bad_time_format"] = None
            if sc["join"] is not None and not sc["save_O"]:
                sc["join"] = None
            return sc
        return self.p.gen(T, prop, tier, ctx)

    def run(self, sc, S, prop, want_trace=False):
        if sc.get("_via") == "cli":
            out = self.c.run(sc, S, "C15", want_trace=want_trace)
            v = out.get("violation")
            if v is not None:
                sig = str(v.get("signature"))
                delivered = any(k.startswith("interrupt:")
                                for k in out.get("faults", {}))
                # only what C14 itself states is forwarded: threads end, no
                # exception, detections == those of the prefix read (line
                # count), files; formatting, defaults, exit status, -q etc.
                # are C15's business, and a run whose interrupt was never
                # delivered is not a C14 run
                c14_matter = sig.startswith("C15.4") or sig in (
                    "C15.1:line_count", "C15.3:o_names", "C15.3:o_data",
                    "C15.3:O_unreadable", "C15.3:O_header", "C15.3:O_data",
                    "C15.3:join_data")
                if not c14_matter or not delivered:
                    out["violation"] = None
                    out["probes"]["cli_violation_not_c14_matter"] = 1
                    return out
                v["clause"] = "C14.cli(" + v["clause"] + ")"
                v["signature"] = "C14.cli:" + sig
            if out.get("shape"):
                out["shape"] = "cli:" + out["shape"]
            return out
        return self.p.run(sc, S, prop, want_trace=want_trace)

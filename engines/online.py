"""Engine `online` — C08.

The read seam is owned by the simulator: every read is logged, end of stream
is injected at *every* cut point of each generated stream, and consumers
abandon generators after k items.  What is judged is *when* a token / region
reaches the consumer relative to the reads, which no input/output test sees.

Layers: L1 StreamTokenizer.tokenize over SimFrameSource; L2 split() over a
SimAudioSource; L3 the worker pipeline (real threads under the scheduler) with
one recording observer.
"""
import hashlib
import os

from simkit import sched, seams, sources
from simkit.tape import mix

from . import common as C
from .pipeline import gen_sched, _trace_files


class SimFrameSource:
    """DataSource for the tokenizer: frames are (index, valid) pairs; EOF is
    injected after `cut` frames."""

    def __init__(self, valid, cut):
        self.valid = valid
        self.cut = cut
        self.reads = 0
        self.eof = 0
        self.reads_after_eof = 0

    def read(self):
        if self.eof:
            self.reads_after_eof += 1
        i = self.reads
        self.reads += 1
        if i >= self.cut:
            self.eof += 1
            return None
        return (i, self.valid[i])


def _valid(f):
    return f[1]


class Engine:
    name = "online"
    props = ("C08",)

    def level(self, prop):
        return "exploration"

    def rule(self, prop):
        return ("One evaluation = one drawn stream (validity pattern, N "
                "frames) and parameter tuple (min/max length, silence, "
                "init_min, init_max_silence, mode), run (L1) through "
                "StreamTokenizer.tokenize in list, generator and callback "
                "modes with end of stream injected at EVERY cut point k in "
                "[0, N] and the generator abandoned after a drawn number of "
                "items; or (L2) through split() over a simulator-owned audio "
                "source; or (L3) through the worker pipeline under a seeded "
                "schedule. distinct = distinct (layer, parameters, pattern) "
                "signature; non-trivial = the whole stream yields >= 2 tokens "
                "of which at least one is handed over before end of stream.")

    def components(self):
        return {
            "real": ["auditok.core.StreamTokenizer", "auditok.core.split / "
                     "AudioRegion", "auditok.util.AudioReader + "
                     "AudioEnergyValidator", "L3: auditok.workers "
                     "(TokenizerWorker + observer thread)"],
            "simulated": ["frame source -> SimFrameSource (logs reads, EOF at "
                          "every cut)", "audio source -> SimAudioSource",
                          "L2 'rawfile': a lazily read raw scratch file, "
                          "watched through the open() seam of auditok.io "
                          "(bytes asked of the file at each hand-over)",
                          "L3: queue/thread/clock seams as in engine "
                          "pipeline"],
            "stubbed": [], "not_run": [],
        }

    def assumptions(self, prop):
        return ["streams and parameter tuples are sampled; all cut points of "
                "each sampled stream are taken",
                "latency bound uses max(max_continuous_silence, "
                "init_max_silence) when init_min > 1 (looser, sound)"]

    def describe(self, sc):
        d = dict(sc)
        d["pattern"] = "".join("A" if p else "." for p in sc["pattern"])
        return d

    def gen(self, T, prop, tier, ctx=None):
        layer = T.weighted([(6, 1), (3, 2), (1, 3)] if tier == "quick"
                           else [(4, 1), (4, 2), (2, 3)])
        nmax = 60 if tier == "quick" else 300
        if layer == 3:
            nmax = 40
        n = T.draw(nmax + 1)
        sc = {"prop": prop, "layer": layer, "n": n}
        if layer == 1:
            mx = T.between(1, 8)
            if T.draw(12) == 0:
                mx = T.between(9, 45)   # occasionally long tokens
            sc["tok"] = {
                "max_length": mx, "min_length": T.between(1, mx),
                "mcs": T.draw(mx),
                "init_min": T.draw(mx) if T.draw(3) == 0 else 0,
                "init_max_silence": T.draw(5) if T.draw(3) == 0 else 0,
                "mode": T.choice([0, 2, 4, 6]),
            }
            sc["abandon"] = T.draw(12)
        else:
            sw, ch, sr, bsz = C.gen_format(T, rich=False)
            sc["fmt"] = [sw, ch, sr, bsz]
            sc["extra"] = T.draw(bsz) if T.draw(3) == 0 else 0
            sc["block_dur"] = C.block_dur_for(bsz, sr)
            sc["params"] = C.gen_split_params(T, bsz / sr)
            sc["abandon"] = T.draw(12)
            sc["via"] = T.weighted([(3, "reader"), (3, "source"),
                                    (3, "overlap"), (1, "rawfile")])
            if layer == 3 and sc["via"] == "rawfile":
                sc["via"] = "source"
            sc["hop"] = T.between(1, bsz - 1) if bsz > 1 else None
            if sc["hop"] is None and sc["via"] == "overlap":
                sc["via"] = "reader"
            if layer == 3:
                sc["sched"] = gen_sched(T, tier, n)
        sc["pattern"] = C.gen_pattern(T, n)
        return sc

    # ------------------------------------------------------------------ run
    def run(self, sc, S, prop, want_trace=False):
        out = {"violation": None, "error": None, "steps": 0, "simtime": 0.0,
               "faults": {}, "probes": {}, "nontrivial": False}
        try:
            if sc["layer"] == 1:
                v = self._l1(sc, out)
            elif sc["layer"] == 2:
                self._tmp = None
                if sc.get("via") == "rawfile":
                    seams.bind()
                    seams.reset_captures(None)
                    self._tmp = C.scratch_dir()
                try:
                    v = self._l2(sc, out)
                finally:
                    if self._tmp:
                        C.rm_scratch(self._tmp)
                        self._tmp = None
            else:
                v = self._l3(sc, S, out, want_trace)
        except Exception:
            import traceback
            out["error"] = "engine crashed: " + traceback.format_exc()
            return out
        out["violation"] = v
        out["sig"] = mix(sc["layer"], repr(sc.get("tok")), repr(sc.get("fmt")),
                         repr(sc.get("params")), tuple(sc["pattern"]),
                         out.get("_sigx"))
        out.pop("_sigx", None)
        out["shape"] = "L%d" % sc["layer"]
        return out

    @staticmethod
    def _V(clause, detail, sig=None):
        return {"clause": clause, "detail": str(detail)[:1200],
                "signature": sig or clause}

    # ---- latency clause shared by all layers (indices in frames/windows)
    def _latency(self, i, start, end, d, n_total, max_length, bound,
                 valid=None, mcs=None):
        """d = index of the read in flight at hand-over (n_total = the read
        that returned end of stream).  With the validity of the frames known
        (`valid`, and no initial phase) the deciding frame is determined
        exactly: the frame completing max_length, else the first frame of
        excess silence = last valid frame + max_continuous_silence + 1, else
        end of stream."""
        length = end - start + 1
        if valid is not None and mcs is not None:
            # the deciding frame: the one completing max_length, or the first
            # frame of excess silence (last valid frame + mcs + 1), or the
            # end-of-stream read - whichever comes first
            last = None
            for k in range(min(end, len(valid) - 1), start - 1, -1):
                if valid[k]:
                    last = k
                    break
            cands = [n_total, start + max_length - 1]
            if last is not None:
                cands.append(last + mcs + 1)
            want = min(cands)
            if d == want:
                return None
            return ("token %d [%d..%d] handed over while read #%d was in "
                    "flight; the deciding read is #%d (stream has %d frames)"
                    % (i, start, end, d, want, n_total))
        if d == n_total:
            return None
        if length >= max_length and d == end:
            return None
        if end < d <= end + bound + 1:
            return None
        return ("token %d [%d..%d] handed over while read #%d was in flight "
                "(stream has %d frames; allowed: %d (cut at max_length), "
                "%d..%d (silence decided), or %d (end of stream))" % (
                    i, start, end, d, n_total, end, end + 1, end + bound + 1,
                    n_total))

    def _l1(self, sc, out):
        from auditok.core import StreamTokenizer
        V = self._V
        p = sc["tok"]
        valid = sc["pattern"]
        N = len(valid)
        try:
            tk = StreamTokenizer(_valid, p["min_length"], p["max_length"],
                                 p["mcs"], p["init_min"],
                                 p["init_max_silence"], p["mode"])
        except ValueError:
            out["probes"]["params_rejected"] = 1
            return None
        bound = p["mcs"] if p["init_min"] <= 1 else max(
            p["mcs"], p["init_max_silence"])

        def norm(tokens):
            return [(tuple(f[0] for f in t[0]), t[1], t[2]) for t in tokens]

        def run_gen(cut, abandon=None):
            src = SimFrameSource(valid, cut)
            t = StreamTokenizer(_valid, p["min_length"], p["max_length"],
                                p["mcs"], p["init_min"],
                                p["init_max_silence"], p["mode"])
            g = t.tokenize(src, generator=True)
            toks, at = [], []
            for tok in g:
                toks.append(tok)
                at.append(src.reads)
                if abandon is not None and len(toks) >= abandon:
                    break
            return src, g, norm(toks), at

        whole_tokens = None
        whole_at = None
        for cut in range(N, -1, -1):
            out["steps"] += cut + 1
            src, g, toks, at = run_gen(cut)
            # clause 3: end of stream requested exactly once
            if src.reads != cut + 1 or src.eof != 1 or src.reads_after_eof:
                return V("C08.3", "cut %d: source read %d times (expected "
                         "%d), end of stream returned %d time(s), %d read(s) "
                         "after it" % (cut, src.reads, cut + 1, src.eof,
                                       src.reads_after_eof),
                         "C08.3:eos_once")
            # clause 1: latency
            for i, (tok, a) in enumerate(zip(toks, at)):
                msg = self._latency(i, tok[1], tok[2], a - 1, cut,
                                    p["max_length"], bound,
                                    valid if p["init_min"] <= 1 else None,
                                    p["mcs"])
                if msg:
                    return V("C08.1", "generator mode, cut %d: %s" % (
                        cut, msg), "C08.1:latency")
            if cut == N:
                whole_tokens, whole_at = toks, at
                # clause 4: three delivery modes agree
                src_l = SimFrameSource(valid, cut)
                tk_l = StreamTokenizer(_valid, p["min_length"],
                                       p["max_length"], p["mcs"],
                                       p["init_min"], p["init_max_silence"],
                                       p["mode"])
                tk_c = StreamTokenizer(_valid, p["min_length"],
                                       p["max_length"], p["mcs"],
                                       p["init_min"], p["init_max_silence"],
                                       p["mode"])
                lst = norm(tk_l.tokenize(src_l))
                got_cb, at_cb = [], []
                src_c = SimFrameSource(valid, cut)

                def cb(data, start, end):
                    got_cb.append((data, start, end))
                    at_cb.append(src_c.reads)
                r = tk_c.tokenize(src_c, callback=cb)
                got_cb = norm(got_cb)
                if lst != toks or got_cb != toks:
                    return V("C08.4", "delivery modes disagree: list %r, "
                             "generator %r, callback %r" % (
                                 _brief(lst), _brief(toks), _brief(got_cb)),
                             "C08.4:modes")
                if at_cb != at:
                    return V("C08.4", "callback hand-over instants %r differ "
                             "from generator's %r" % (at_cb, at),
                             "C08.4:instants")
                for s_ in (src_l, src_c):
                    if s_.reads != cut + 1 or s_.reads_after_eof:
                        return V("C08.3", "list/callback mode: source read "
                                 "%d times for %d frames" % (s_.reads, cut),
                                 "C08.3:eos_once")
                # clause 2: abandonment
                k = sc["abandon"]
                if toks and k >= 1:
                    k = min(k, len(toks))
                    src_a, g_a, toks_a, at_a = run_gen(cut, abandon=k)
                    before = src_a.reads
                    how = k % 2
                    if how:
                        getattr(g_a, "close", lambda: None)()
                    else:
                        del g_a
                    if src_a.reads != before or before != at[k - 1]:
                        return V("C08.2", "consumer stopped after token %d "
                                 "(read count %d at hand-over) but the source "
                                 "was read %d times" % (k, at[k - 1],
                                                        src_a.reads),
                                 "C08.2:read_after_abandon")
                    out["faults"]["abandon"] = 1
            else:
                # clause 5: prefix consistency
                msg = _prefix_check(toks, at, whole_tokens, whole_at, cut)
                if msg:
                    return V("C08.5", "cut %d of %d: %s" % (cut, N, msg),
                             "C08.5:prefix")
        out["faults"]["eof_cut"] = N + 1
        early = sum(1 for a in whole_at if a - 1 < N)
        out["nontrivial"] = len(whole_tokens) >= 2 and early >= 1
        if any(t[2] - t[1] + 1 >= p["max_length"] for t in whole_tokens):
            out["probes"]["token_cut_at_max_length"] = 1
        if p["init_min"] > 1:
            out["probes"]["init_phase"] = 1
        return None

    # ------------------------------------------------------------------ L2
    def _l2(self, sc, out):
        """split() over a simulator-owned source.  What is observed: the
        frames as the validator judges them (a recording validator wrapping
        the real one), the samples the source has handed out, and whether it
        has signalled end of stream - each at the moment a region reaches the
        consumer.  Token indices come from a fresh StreamTokenizer run over
        the OBSERVED verdict sequence, not from region.start / len(data)."""
        from auditok import AudioReader, split
        from auditok.core import StreamTokenizer
        from auditok.util import AudioEnergyValidator
        V = self._V
        sw, ch, sr, bsz = sc["fmt"]
        bps = sw * ch
        params = sc["params"]
        data = C.synth(sc["pattern"], bsz, sw, ch, sc["extra"])
        kw = C.split_kwargs(params)
        mx, ms, mn = params["mx"], params["ms"], params["mn"]
        overlap = sc["via"] == "overlap" and layer_hop(sc) is not None
        hop = layer_hop(sc) if overlap else None
        hop_dur = None
        if overlap:
            # a duration on which floor and round agree (how the hop is
            # rounded is not fixed by any statement)
            hop_dur = (hop + 0.25) / sr
            if (int(hop_dur * sr) != hop or round(hop_dur * sr) != hop
                    or not hop_dur < sc["block_dur"]):
                overlap, hop, hop_dur = False, None, None

        rawfile = sc["via"] == "rawfile"
        nfile = [0]
        if rawfile:
            seams.PROXY_FILES["on"] = True
            out["faults"]["split_over_a_lazily_read_raw_file"] = 1

        def start(cutbytes):
            src = None
            if rawfile:
                # the input is a raw FILE read lazily: what split() pulls
                # from it is what the library asks of the file object
                nfile[0] += 1
                path = os.path.join(self._tmp, "in_%d.raw" % nfile[0])
                C.write_file(path, data[:cutbytes])
                src = _FileWatch(os.path.basename(path))
            else:
                src = sources.SimAudioSource(data[:cutbytes], sr, sw, ch)
            real = AudioEnergyValidator(C.ETH, sw, ch)
            seen = []          # verdict per frame, in the order judged

            def rec_valid(frame):
                ok = bool(real.is_valid(frame))
                seen.append(ok)
                return ok
            if rawfile:
                g = split(path, large_file=True, audio_format="raw", sr=sr,
                          sw=sw, ch=ch, analysis_window=sc["block_dur"],
                          validator=rec_valid, **kw)
            elif overlap:
                g = split(AudioReader(src, block_dur=sc["block_dur"],
                                      hop_dur=hop_dur), validator=rec_valid,
                          **kw)
            elif sc["via"] in ("reader", "overlap"):
                g = split(AudioReader(src, block_dur=sc["block_dur"]),
                          validator=rec_valid, **kw)
            else:
                g = split(src, analysis_window=sc["block_dur"],
                          validator=rec_valid, **kw)
            return src, g, seen

        def needed(k, total):
            """samples that k frames require"""
            if k <= 0:
                return 0
            if overlap:
                return min(total, bsz + (k - 1) * hop)
            return min(total, k * bsz)

        src, g, seen = start(len(data))
        total = len(data) // bps
        regs, at = [], []
        for r in g:
            regs.append(r)
            at.append((len(seen), len(src.served_bytes()) // bps,
                       src.eof_returned))
            out["steps"] += 1
        if rawfile and regs and not src.reads:
            # the file is not read through the seam: no vantage point
            out["probes"]["rawfile_reads_not_observable"] = 1
            return None
        if not rawfile and (src.reads_after_eof or src.eof_returned > 1):
            # ("the source" of the statement is the audio source; how often
            # a file source asks its FILE for more after the end is not
            # judged)
            return V("C08.3", "split(): end of stream requested %d time(s), "
                     "%d read(s) after it" % (src.eof_returned,
                                              src.reads_after_eof),
                     "C08.3:eos_once")
        nwin = len(seen)
        # tokens of the observed verdict sequence (fresh tokenizer)
        mode = (StreamTokenizer.DROP_TRAILING_SILENCE
                if params["drop_trailing_silence"] else 0)
        if params["strict_min_dur"]:
            mode |= StreamTokenizer.STRICT_MIN_LENGTH

        class _Seq:
            def __init__(self, v):
                self.v, self.i = v, 0

            def read(self):
                if self.i >= len(self.v):
                    return None
                self.i += 1
                return (self.i - 1, self.v[self.i - 1])
        try:
            toks = StreamTokenizer(lambda f: f[1], mn, mx, ms,
                                   mode=mode).tokenize(_Seq(seen))
        except ValueError:
            toks = None
        if toks is None or len(toks) != len(regs):
            # how regions relate to frames is C05's business: no basis for
            # the hand-over clause here
            out["probes"]["l2_regions_do_not_match_tokens"] = 1
        else:
            for i, (tok, (njudged, served, eof)) in enumerate(zip(toks, at)):
                s_, e_ = tok[1], tok[2]
                if not overlap:
                    want_b = (min((e_ + 1) * bsz, total) - s_ * bsz) * bps
                    try:
                        got_b = len(bytes(regs[i]))
                    except Exception:
                        got_b = None
                    if got_b != want_b:
                        # the region is not that token's audio: pairing it
                        # with the token would mis-attribute (C05/C06)
                        out["probes"]["l2_region_is_not_the_token"] = 1
                        break
                d = nwin if eof else njudged - 1
                msg = self._latency(i, s_, e_, d, nwin, mx, ms, seen, ms)
                if msg and njudged == nwin:
                    # every frame of the stream has been judged: whether the
                    # token was decided by the LAST frame or by the end of
                    # the stream cannot be told from outside (a reader that
                    # completes a ragged last frame meets the end while that
                    # frame is in flight; one that knows the length of its
                    # input, or latches on a short block, never asks for the
                    # end at all) - either is accepted
                    for d_ in (nwin - 1, nwin):
                        msg = self._latency(i, s_, e_, d_, nwin, mx, ms,
                                            seen, ms)
                        if not msg:
                            break
                if msg:
                    return V("C08.6", "split() over %s, region %d: %s" % (
                        "an overlapping reader (hop %d of %d samples)" % (
                            hop, bsz) if overlap else sc["via"], i, msg),
                        "C08.6:split_latency")
                # lazy reading: no more samples pulled than the frames judged
                # so far require (one window of slack for a source that
                # delivers a window in pieces is not needed: judged in
                # samples, not in calls)
                # For split() over a reader its input is that reader: how
                # the reader chunks its own reads of the raw source is not
                # split()'s laziness - less than one further frame of slack.
                slack = 0 if sc["via"] == "source" else (
                    hop if overlap else bsz) - 1
                if not eof and served > needed(njudged, total) + slack:
                    return V("C08.6", "split() region %d handed over after "
                             "%d samples had been pulled; the %d frames "
                             "judged so far need %d" % (
                                 i, served, njudged, needed(njudged, total)),
                             "C08.6:split_prefetch")
        if overlap:
            out["probes"]["split_over_overlapping_reader"] = 1

        # abandonment: after k regions nothing more is pulled
        k = sc["abandon"]
        if regs and k >= 1:
            k = min(k, len(regs))
            src2, g2, _ = start(len(data))
            for j, r in enumerate(g2, 1):
                if j >= k:
                    break
            before = src2.reads
            getattr(g2, "close", lambda: None)()
            if src2.reads != before:
                return V("C08.2", "split(): consumer stopped after region %d; "
                         "the source was read again (%d -> %d calls)" % (
                             k, before, src2.reads),
                         "C08.2:read_after_abandon")
            out["faults"]["abandon"] = 1
        if overlap:
            early = sum(1 for a in at if not a[2])
            out["nontrivial"] = len(regs) >= 2 and early >= 1
            return None
        # prefix consistency at a few cut points (whole windows + one ragged)
        keys = [(r.start, bytes(r.data)) for r in regs]
        nfull = len(sc["pattern"])
        wb = bsz * bps
        cuts = sorted(set(c * wb for c in (
            0, 1, nfull // 2, nfull // 3, max(0, nfull - 1), nfull,
            sc["abandon"] % (nfull + 1)) if c <= nfull))
        for cb in cuts:
            if cb > len(data):
                continue
            srcp, gp, _ = start(cb)
            pk = [(r.start, bytes(r.data)) for r in gp]
            ncut = -(-(cb // bps) // bsz)
            msg = _prefix_check_regions(
                pk, keys, [((nwin if a_[2] else a_[0] - 1) + 1, a_[2])
                           for a_ in at], cb, ncut, bsz / sr, bps, bsz)
            if msg:
                return V("C08.5", "split() prefix of %d bytes: %s" % (cb, msg),
                         "C08.5:split_prefix")
            out["faults"]["eof_cut"] = out["faults"].get("eof_cut", 0) + 1
        early = sum(1 for a in at if not a[2])
        out["nontrivial"] = len(regs) >= 2 and early >= 1
        return None

    # ------------------------------------------------------------------ L3
    def _l3(self, sc, S, out, want_trace):
        seams.bind()
        import auditok.workers as W
        from auditok import AudioReader
        V = self._V
        sw, ch, sr, bsz = sc["fmt"]
        bps = sw * ch
        params = sc["params"]
        data = C.synth(sc["pattern"], bsz, sw, ch, sc["extra"])
        nwin = len(sc["pattern"]) + (1 if sc["extra"] else 0)
        kw = C.split_kwargs(params)
        kw["eth"] = C.ETH
        scfg = dict(sc["sched"])
        scfg["trace_files"] = _trace_files()
        sim = sched.Sim(S, scfg)
        seams.reset_captures(None)
        stall = sources.StallPlan(tuple(scfg["stall"]), scfg["stall_durs"])
        res = {}

        class RecObs(W.Worker):
            def __init__(self):
                self.got = []
                self.sent = []
                self.senders = []
                super().__init__(timeout=0.2)

            def _process_message(self, message):
                self.got.append((message, res["src"].reads))

            def send(self, message):
                # the hand-over: the tokenizer thread gives the detection to
                # this observer (whatever the inbox is made of)
                if isinstance(message, tuple):
                    c_ = res["cnt"]
                    self.sent.append((c_["frames"], c_["eof"]))
                    me_ = sim.me()
                    self.senders.append(me_.role if me_ is not None else "?")
                return super().send(message)

        def main():
            src = res["src"] = sources.SimAudioSource(data, sr, sw, ch,
                                                      stall=stall)
            reader = AudioReader(src, block_dur=sc["block_dur"])
            obs = res["obs"] = RecObs()
            tok = W.TokenizerWorker(reader, [obs], **kw)
            # what the detector itself has pulled is counted where it pulls
            # it - the worker's own read() - not at the raw source (a worker
            # that decouples capture from detection stays lazy in this sense)
            cnt = res["cnt"] = {"frames": 0, "eof": 0, "calls": 0}
            tok_read = tok.read

            first_seen = res["first_seen"] = {}

            def counting_read():
                # second vantage point: the worker's public `detections`
                # list as it stands when the worker comes back for the next
                # frame.  Whichever of the two (this, or the observer's
                # send()) shows a detection EARLIER bounds the moment the
                # generator item reached the worker - how and in which
                # thread the worker then passes it on is not C08's business
                try:
                    nd = len(tok.detections)
                except Exception:
                    nd = 0
                for i_ in range(len(first_seen), nd):
                    first_seen[i_] = (cnt["frames"], cnt["eof"])
                b = tok_read()
                cnt["calls"] += 1
                if b is None:
                    cnt["eof"] += 1
                else:
                    cnt["frames"] += 1
                return b
            tok.read = counting_read
            tok.start_all()
            tok.join()
            obs.join()

        import gc
        gc.disable()
        failure = sim.run(main)
        out["steps"] = sim.steps
        out["simtime"] = sim.now
        out["_sigx"] = sim.sig
        for k_ in ("timeout_fired", "stall", "starve", "preempt"):
            if sim.counters.get(k_):
                out["faults"][k_] = sim.counters[k_]
        if want_trace:
            out["trace"] = [list(e) for e in sim.log[-400:]]
        if sim.harness_error:
            out["error"] = sim.harness_error
            return None
        if failure is not None or any(t.exc is not None
                                      for t in sim.threads):
            # liveness and exceptions of the pipeline are C12-C14's business
            out["probes"]["l3_pipeline_failed_not_judged"] = 1
            res.clear()
            return None
        src3 = res["src"]
        if src3.reads_after_eof or src3.eof_returned > 1:
            return V("C08.3", "pipeline: end of stream returned %d time(s), "
                     "%d read(s) after it" % (src3.eof_returned,
                                              src3.reads_after_eof),
                     "C08.3:pipe_eos_once")
        # frames pulled from the source when detection i was handed to the
        # observer (recorded in RecObs.send)
        valid3 = [bool(p_) for p_ in sc["pattern"]] + (
            [True] if sc["extra"] else [])
        from auditok.core import StreamTokenizer
        mode = (StreamTokenizer.DROP_TRAILING_SILENCE
                if params["drop_trailing_silence"] else 0)
        if params["strict_min_dur"]:
            mode |= StreamTokenizer.STRICT_MIN_LENGTH

        class _Seq:
            def __init__(self, v):
                self.v, self.i = v, 0

            def read(self):
                if self.i >= len(self.v):
                    return None
                self.i += 1
                return (self.i - 1, self.v[self.i - 1])
        toks = StreamTokenizer(lambda f: f[1], params["mn"], params["mx"],
                               params["ms"], mode=mode).tokenize(_Seq(valid3))
        sent = res["obs"].sent
        got = res["obs"].got
        at = {}
        if not res.get("cnt", {}).get("calls"):
            # the worker does not pull through its read(): no vantage point
            out["probes"]["l3_worker_read_not_used"] = 1
        elif any(not str(r_).startswith("TokenizerWorker")
                 for r_ in res["obs"].senders):
            # detections are passed on by another thread than the one that
            # consumes the generator: neither send() nor the growth of the
            # `detections` list says when the item reached the worker
            out["probes"]["l3_handover_in_another_thread_not_judged"] = 1
        elif len(toks) == len(sent):
            first_seen = res.get("first_seen", {})
            for i, (tok, (frames, eof)) in enumerate(zip(toks, sent)):
                if i in first_seen and first_seen[i] < (frames, eof):
                    frames, eof = first_seen[i]
                    out["probes"]["l3_detection_seen_before_send"] = 1
                d = nwin if eof else frames - 1
                at[i] = d + 1
                msg = self._latency(i, tok[1], tok[2], d, nwin, params["mx"],
                                    params["ms"], valid3, params["ms"])
                if msg and frames == nwin:
                    for d_ in (nwin - 1, nwin):
                        msg = self._latency(i, tok[1], tok[2], d_, nwin,
                                            params["mx"], params["ms"],
                                            valid3, params["ms"])
                        if not msg:
                            break
                if msg:
                    return V("C08.6", "pipeline: %s" % msg,
                             "C08.6:pipe_latency")
        else:
            out["probes"]["l3_detections_do_not_match_tokens"] = 1
        early = sum(1 for v in at.values() if v - 1 < nwin)
        out["nontrivial"] = len(got) >= 2 and early >= 1
        res.clear()
        return None


class _FileWatch:
    """What the library has asked of one scratch file so far (through the
    `open` seam of auditok.io), with the counters of a SimAudioSource."""

    def __init__(self, label):
        self.label = label
        self.mark = len(seams.READERS)

    def _rs(self):
        return [r for r in seams.READERS[self.mark:]
                if r._label == self.label]

    def served_bytes(self):
        return bytes(sum(r.served_bytes for r in self._rs()))

    @property
    def eof_returned(self):
        return sum(r.eof_returned for r in self._rs())

    @property
    def reads_after_eof(self):
        return sum(r.reads_after_eof for r in self._rs())

    @property
    def reads(self):
        return sum(r.reads for r in self._rs())


def layer_hop(sc):
    return sc.get("hop")


def _brief(toks):
    return [(t[1], t[2]) for t in toks]


def _prefix_check(ptoks, pat, wtoks, wat, cut):
    """tokens of the prefix (cut frames) vs tokens of the whole stream."""
    # tokens of the whole stream decided by a frame that exists in the prefix
    decided = [t for t, a in zip(wtoks, wat) if a - 1 < cut]
    m = len(decided)
    if ptoks[:m] != decided:
        return "prefix tokens %r do not start with the whole stream's tokens " \
               "decided within the prefix %r" % (_brief(ptoks), _brief(decided))
    rest = ptoks[m:]
    if not rest:
        return None
    if len(rest) > 1:
        return "prefix delivers %d extra tokens %r" % (len(rest), _brief(rest))
    if pat[m] - 1 != cut:
        return "extra prefix token %r was not produced by the end-of-stream " \
               "flush" % (_brief(rest),)
    if m >= len(wtoks):
        return "prefix flush token %r has no counterpart in the whole stream " \
               "%r" % (_brief(rest), _brief(wtoks))
    ft, wt = rest[0], wtoks[m]
    if ft[1] != wt[1] or ft[0] != wt[0][:len(ft[0])]:
        return "prefix flush token %r is not a same-start prefix of %r" % (
            (ft[1], ft[2]), (wt[1], wt[2]))
    return None


def _prefix_check_regions(pk, keys, at, cutbytes, ncut, w, bps, bsz):
    decided = [k for k, a in zip(keys, at) if a[0] - 1 < ncut and not (
        # a region decided by the read of a window that the cut truncates
        False)]
    # a ragged cut changes the content of the last window: compare only
    # regions decided strictly before the last (possibly ragged) window
    full = cutbytes // (bps * bsz)
    decided = [k for k, a in zip(keys, at) if a[0] - 1 < full]
    m = len(decided)
    if pk[:m] != decided:
        return "regions %r do not start with the whole stream's regions " \
               "decided within the prefix %r" % (
                   [(round(s, 4), len(d)) for s, d in pk],
                   [(round(s, 4), len(d)) for s, d in decided])
    rest = pk[m:]
    if len(rest) > 1:
        # more than one extra region can only come from the ragged window
        # being judged differently; with whole-window cuts this is an error
        if cutbytes % (bps * bsz) == 0:
            return "prefix delivers %d extra regions" % len(rest)
        return None
    if not rest:
        return None
    if m >= len(keys):
        if cutbytes % (bps * bsz) == 0:
            return "prefix flush region has no counterpart"
        return None
    fs, fd = rest[0]
    ws, wd = keys[m]
    if cutbytes % (bps * bsz) == 0:
        if fs != ws or fd != wd[:len(fd)]:
            return "prefix flush region (start %r, %d bytes) is not a " \
                   "same-start prefix of (start %r, %d bytes)" % (
                       fs, len(fd), ws, len(wd))
    return None

"""Engine `pipeline` — C12, C13, C14.

The real worker threads of auditok.workers run under the simkit scheduler:
seeded interleavings, queue-timeout firings, stalled source / disk, starved
roles, line-level pre-emption, and (C14) a stop request injected at a drawn
or enumerated point.  Oracles are differential against the same tree run
sequentially (split() over an in-memory reader, no threads).
"""
import glob
import hashlib
import os
import sys

from simkit import sched, seams, sources
from simkit.tape import mix

from . import common as C

GROUP = 256  # C14 thorough: runs per enumeration group (one base scenario)

ROLES = ["TokenizerWorker", "StreamSaverWorker", "RecObs", "PrintWorker",
         "RegionSaverWorker", "AudioEventsJoinerWorker", "PlayerWorker",
         "CommandLineWorker", "main"]
TIMEOUTS = [0.2, 0.01, 0.05, 0.5, 2.0]
OBS_KINDS = ["rec", "print", "region", "join", "player", "cmd"]
STOP_KINDS = ["immediate", "read", "sent", "put", "timeout", "time", "end",
              "wavwrite", "get"]


def _trace_files():
    import auditok.cmdline
    import auditok.cmdline_util
    import auditok.workers
    return [auditok.workers.__file__, auditok.cmdline.__file__,
            auditok.cmdline_util.__file__]


def out_name(stem, fmt, naming):
    """(file name, export_format argument) for a saver / joiner output in
    format `fmt`: the explicit export_format, when given, decides."""
    if naming == "explicit_other_ext":
        return stem + ".dat", fmt
    if naming == "explicit_no_ext":
        return stem, fmt
    if naming == "explicit_wrong_ext":
        return stem + (".raw" if fmt == "wav" else ".wav"), fmt
    return stem + "." + fmt, None


def gen_sched(T, tier, n_hint=40):
    policy = T.weighted([(4, "random"), (2, "pct"), (2, "starve"), (1, "rr"),
                         (3, "burst")])
    p_timer = T.choice([[0, 1], [1, 50], [1, 5], [3, 5]])
    if tier == "quick":
        p_pre = T.weighted([(18, [0, 1]), (1, [1, 20]), (1, [3, 10])])
    else:
        p_pre = T.weighted([(14, [0, 1]), (3, [1, 20]), (3, [3, 10])])
    cfg = {"policy": policy, "p_timer": p_timer, "p_preempt": p_pre}
    cfg["p_gc"] = T.weighted([(12, [0, 1]), (1, [1, 400]), (1, [1, 80])])
    npts = T.draw(4)
    cfg["pct_points"] = [T.between(1, 60 + 12 * n_hint) for _ in range(npts)]
    cfg["starve"] = T.choice(ROLES)
    cfg["starve_k"] = T.choice([20, 100, 500, 3000])
    stall = T.choice([[0, 1], [1, 10], [1, 3]])
    cfg["stall"] = stall
    cfg["stall_durs"] = T.choice([[0.05, 0.3, 1.0, 5.0], [0.001, 0.01],
                                  [0.19, 0.2, 0.21], [30.0]])
    return cfg


class Engine:
    name = "pipeline"
    props = ("C12", "C13", "C14")

    # ------------------------------------------------------------ metadata
    def level(self, prop):
        return "fault_enumeration" if prop == "C14" else "exploration"

    def rule(self, prop):
        r = ("One evaluation = one scenario (stream of 0..120 windows, "
             "occasionally 130..400 or 1100..1600; audio format, split "
             "parameters, max_read, observer set of 0..5 workers of six kinds, "
             "stream saver with cache 0..beyond-stream, timeouts, logger, "
             "slow disk, optionally an earlier finished pipeline left as "
             "garbage or a second pipeline running concurrently; all drawn "
             "from the scenario tape) executed once under one seeded schedule "
             "(policy random / PCT / starve-a-role / round-robin / bursts, "
             "timer firings, source and disk stalls, line pre-emption, "
             "injected garbage collections; schedule tape) with the real "
             "auditok worker threads. "
             "distinct = distinct hash of the run's sequence of "
             "(thread, operation) events. non-trivial = at least one "
             "detection in the oracle AND at least one context switch while "
             "a message was in flight in some inbox.")
        if prop == "C14":
            r += (" Stop positions: thorough tier enumerates every trigger "
                  "position of each base scenario (groups of %d runs share "
                  "one base scenario; position = run_index mod #positions), "
                  "schedules sampled per position; quick tier samples "
                  "positions." % GROUP)
        return r

    def extra_evidence(self, prop, tier, total):
        if prop != "C14" or tier != "thorough":
            return None
        pr = total["probes"]
        g = pr.get("enumeration_groups_started", 0)
        return {"stop_enumeration": {
            "group_size_runs": GROUP,
            "groups_started": g,
            "groups_complete": total.get("chunks_complete", 0),
            "stop_positions_in_started_groups":
                pr.get("stop_positions_in_started_groups", 0),
            "positions_taken_at_least_once":
                pr.get("stop_positions_enumerated_first_pass", 0),
            "mean_schedules_per_position": round(
                pr.get("stop_position_runs", 0)
                / max(1, pr.get("stop_positions_enumerated_first_pass", 1)),
                2),
            "note": "within a complete group every trigger position of the "
                    "group's base scenario is taken (position = slot mod "
                    "#positions, slot = run_index mod group size), each "
                    "under group_size/#positions independently seeded "
                    "schedules",
        }}

    def components(self):
        return {
            "real": ["auditok.workers (Worker, TokenizerWorker, "
                     "StreamSaverWorker, AudioEventsJoinerWorker, "
                     "RegionSaverWorker, PrintWorker, PlayerWorker, "
                     "CommandLineWorker)", "auditok.core.split / "
                     "StreamTokenizer / AudioRegion / make_silence",
                     "auditok.util.AudioReader wrappers + "
                     "AudioEnergyValidator (numpy)", "auditok.io writers",
                     "stdlib wave on real scratch files"],
            "simulated": ["queue.Queue -> SimQueue", "Thread.start/join/"
                          "is_alive -> scheduler", "datetime.now -> virtual "
                          "clock", "audio input -> SimAudioSource",
                          "print -> capture"],
            "stubbed": ["audio player (recording fake)", "os.system "
                        "(recorded, not executed)",
                        "NamedTemporaryFile (scratch dir factory)"],
            "not_run": ["PyAudio", "ffmpeg/sox export", "plotting"],
        }

    def assumptions(self, prop):
        return [
            "queue.Queue put/get are atomic (as in CPython's implementation)",
            "code between yield points is pre-emptible only at source-line "
            "granularity and only in runs with p_preempt > 0",
            "sequential split() of the same tree is the reference for 'the "
            "right detections' (tokenizer arithmetic is out of scope here)",
            "schedules are sampled, not enumerated",
        ]

    def describe(self, sc):
        d = dict(sc)
        pat = d.pop("pattern")
        d["pattern"] = "".join("A" if p else "." for p in pat)
        return d

    # ---------------------------------------------------------- generation
    def gen(self, T, prop, tier, ctx=None):
        enum = prop == "C14" and tier == "thorough" and ctx is not None
        if enum:
            T.reseed(mix(ctx["base"], "grp", prop, ctx["index"] // GROUP))
        sw, ch, sr, bsz = C.gen_format(T)
        nmax = 40 if tier == "quick" else 120
        if prop == "C14" and tier == "thorough":
            nmax = 40
        n = T.draw(nmax + 1)
        very_long = False
        if not enum and T.draw(14) == 0:
            # long stream: inbox backlogs beyond 128 messages become reachable
            n = 130 + T.draw(271)
            if T.draw(25) == 0:
                # very long stream with a starved writer: backlogs > 1024
                n = 1100 + T.draw(500)
                very_long = True
        extra = T.draw(bsz) if T.draw(3) == 0 else 0
        bd = C.block_dur_for(bsz, sr)
        w = bsz / sr
        params = C.gen_split_params(T, w)
        max_read = None
        if T.draw(6) == 0:
            max_read = (T.draw(n * bsz + bsz + 1) + 0.25) / sr
        saver = None
        want_saver = T.draw(10) < (8 if prop == "C13" else 5)
        if want_saver:
            saver = {
                "fmt": T.choice(["wav", "raw"]),
                "cache_blocks": T.choice([0, 0.5, 1, 3, 7, 100000]),
                "timeout": T.choice(TIMEOUTS),
                # how the format is conveyed: by extension; by an explicit
                # export_format that disagrees with / replaces the extension
                "naming": T.weighted([(5, "ext"), (1, "explicit_other_ext"),
                                      (1, "explicit_no_ext"),
                                      (1, "explicit_wrong_ext")]),
            }
        nobs = T.weighted([(2, 1), (3, 2), (2, 3), (1, 0), (1, 5)])
        obs = []
        for k in range(nobs):
            if prop == "C13":
                kind = T.weighted([(3, "join"), (3, "region"), (1, "rec"),
                                   (1, "print"), (1, "player"), (1, "cmd")])
            else:
                kind = T.weighted([(4, "rec"), (3, "print"), (2, "region"),
                                   (2, "join"), (1, "player"), (1, "cmd")])
            o = {"kind": kind, "timeout": T.choice(TIMEOUTS)}
            if kind == "join":
                o["fmt"] = T.choice(["wav", "raw"])
                o["naming"] = T.weighted([(5, "ext"), (1, "explicit_other_ext"),
                                          (1, "explicit_no_ext"),
                                          (1, "explicit_wrong_ext")])
                # (no values whose fractional part is exactly .5: how
                # round() breaks ties is not fixed by the statement)
                o["silence_samples"] = T.choice([0, 0.4, 1, 1.4, 0.6, 2.75,
                                                 3.6, 7, 100])
                if n <= 12 and sw * ch <= 2 and T.draw(25) == 0:
                    # a gap of more than 2**20 samples (over a minute at
                    # 16 kHz): beyond any plausible internal buffer size
                    o["silence_samples"] = (1 << 20) + 7
                if prop != "C13":
                    # how a fractional gap is rounded is C13's statement:
                    # under C12 / C14 the files only witness delivery
                    o["silence_samples"] = int(round(o["silence_samples"]))
            if kind == "region":
                o["tmpl"] = T.draw(4)
                if prop != "C13":
                    o["tmpl"] = 0   # name formatting is C13's statement
            obs.append(o)
        sc = {"prop": prop, "fmt": [sw, ch, sr, bsz], "n": n, "extra": extra,
              "block_dur": bd, "params": params, "max_read": max_read,
              "saver": saver, "observers": obs}
        stop = None
        if prop == "C14":
            if enum:
                # positions are enumerated once the base scenario is known
                sc["pattern"] = C.gen_pattern(T, n)
                T.reseed(mix(ctx["base"], "run", prop, ctx["index"]))
                positions = self._positions(sc)
                j = ctx["index"] % GROUP
                pi = T.force(len(positions), j % len(positions))
                kind, jj = positions[pi]
                stop = {"kind": kind, "j": jj, "npos": len(positions),
                        "pos": pi, "slot": j}
            else:
                kind = T.choice(STOP_KINDS)
                stop = {"kind": kind, "j": 1 + T.draw(n + 3)}
            stop["boost"] = T.choice([0, 1, 3, 50])
            stop["time"] = T.choice([0.0, 0.01, 0.2, 0.5, 3.0])
        sc["stop"] = stop
        sc["logger"] = T.draw(4) == 0
        sc["slow_disk"] = T.draw(3) == 0
        sc["stale_files"] = T.draw(3) == 0
        sc["slow_observers"] = T.draw(3) == 0
        # the program looks at saver.data while the stream is still running
        # (a read-only property; must not disturb anything)
        sc["peek_saver_data"] = T.draw(4) if (saver is not None
                                              and T.draw(5) == 0) else 0
        # the program joins only the tokenizer and returns (as a script
        # would): non-daemon observers still finish before the process exits
        sc["join_only_tokenizer"] = (
            prop == "C12" and saver is None and T.draw(5) == 0
            and all(o["kind"] in ("rec", "print", "player") for o in obs))
        # an earlier, finished pipeline (with its own stream saver) of the
        # same process whose objects are garbage by now; collections are
        # injected so that its finalisers run in the middle of this run
        sc["prior_session"] = (not enum) and n <= 120 and T.draw(10) == 0
        # ... or a second, independent pipeline (own source, own stream
        # saver) running concurrently in the same process
        sc["concurrent_session"] = (not enum) and n <= 120 \
            and not sc["prior_session"] and T.draw(12) == 0
        sc["sched"] = gen_sched(T, tier, n)
        if n > 120:
            sc["sched"]["p_preempt"] = [0, 1]
        if sc["prior_session"]:
            sc["sched"]["p_gc"] = [1, 60]
        if very_long:
            sc["sched"]["policy"] = "starve"
            sc["sched"]["starve"] = "StreamSaverWorker"
            sc["sched"]["starve_k"] = 40000
            sc["sched"]["p_gc"] = [0, 1]
            sc["sched"]["stall"] = [0, 1]
            if sc["saver"] is None:
                sc["saver"] = {"fmt": "wav", "cache_blocks": 3,
                               "timeout": 0.2}
            sc["observers"] = sc["observers"][:1]
            if stop is not None:
                stop["kind"] = "read"
                stop["j"] = n - T.draw(6)
                stop["boost"] = 50
        if "pattern" not in sc:
            sc["pattern"] = C.gen_pattern(T, n)
        return sc

    def _positions(self, sc):
        """All stop-trigger positions of a base scenario."""
        n = sc["n"] + (1 if sc["extra"] else 0)
        pos = [("immediate", 0)]
        pos += [("read", j) for j in range(1, n + 3)]
        sw, ch, sr, bsz = sc["fmt"]
        data = C.synth(sc["pattern"], bsz, sw, ch, sc["extra"])
        try:
            nd = len(C.oracle_regions(data, sr, sw, ch, sc["block_dur"],
                                      sc["params"], sc["max_read"]))
        except Exception:
            nd = 0
        nobs = max(1, len(sc["observers"]))
        pos += [("sent", j) for j in range(1, nd + 1)]
        pos += [("put", j) for j in range(1, nd * nobs + 2)]
        pos += [("timeout", j) for j in (1, 2, 3)]
        pos += [("time", 0), ("end", 0), ("wavwrite", 1), ("wavwrite", 2),
                ("get", 3), ("get", 7)]
        return pos

    # ----------------------------------------------------------- execution
    def run(self, sc, S, prop, want_trace=False):
        seams.bind()
        import auditok.workers as W
        from auditok import AudioReader

        sw, ch, sr, bsz = sc["fmt"]
        data = C.synth(sc["pattern"], bsz, sw, ch, sc["extra"])
        params = sc["params"]
        bd = sc["block_dur"]
        kw = C.split_kwargs(params)
        kw["eth"] = C.ETH
        stop = sc["stop"]
        scfg = dict(sc["sched"])
        nblocks = sc["n"] + 2
        scfg["trace_files"] = _trace_files()
        # bounded liveness: scheduling becomes fair round-robin (and line
        # pre-emption stops) after fair_after steps; the run must then end
        # within budget further steps
        scfg["fair_after"] = 20000 + 50 * nblocks
        scfg["budget"] = 20000 + 100 * nblocks * (len(sc["observers"]) + 2)
        sim = sched.Sim(S, scfg)
        tmp = C.scratch_dir(collect=True)
        seams.reset_captures(tmp)
        res = {}
        stall = sources.StallPlan(tuple(scfg["stall"]), scfg["stall_durs"])
        seams.FILE_STALL["plan"] = stall if sc.get("slow_disk") else None

        class RecObs(W.Worker):
            def __init__(self, timeout):
                self.got = []
                self.seqs = []
                super().__init__(timeout=timeout)

            def _process_message(self, message):
                if sc.get("slow_observers"):
                    # a slow consumer: processing takes virtual time
                    sim.step("obs.work", None)
                    stall.maybe_stall(sim)
                self.got.append(message)
                self.seqs.append(sim.seq)

        class FakeLogger:
            def __init__(self):
                self.lines = []

            def info(self, msg, *a, **k):
                sim.step("log", None)
                self.lines.append(str(msg))

            debug = warning = error = info

        logger = FakeLogger() if sc.get("logger") else None
        lkw = {"logger": logger} if logger is not None else {}

        class FakePlayer:
            def __init__(self):
                self.played = []

            def play(self, data, progress_bar=False, **kwargs):
                sim.step("play", len(data))
                self.played.append(bytes(data))

        tmpls = ["r%d_{id}.wav", "r%d_{id}_{start:.3f}_{end:.3f}.wav",
                 "r%d_{id}_{duration:.4f}.raw", "r%d_{id:03d}_{start}-{end}.wav"]

        def build_observers():
            out = []
            for k, o in enumerate(sc["observers"]):
                kind = o["kind"]
                if kind == "rec":
                    w = RecObs(o["timeout"])
                elif kind == "print":
                    w = W.PrintWorker("P%d|{id}|{start}|{end}|{duration}" % k,
                                      timeout=o["timeout"])
                elif kind == "region":
                    t = os.path.join(tmp, tmpls[o["tmpl"]] % k)
                    w = W.RegionSaverWorker(t, timeout=o["timeout"], **lkw)
                    w._v_tmpl = t
                    if stop is None and sc.get("stale_files") and whole_E:
                        # a file of the same name, longer, left by an
                        # earlier run into this directory
                        r0 = whole_E[len(whole_E) // 2]
                        i0 = len(whole_E) // 2 + 1
                        stale = t.format(id=i0, start=r0.start, end=r0.end,
                                         duration=r0.duration)
                        with open(stale, "wb") as f_:
                            f_.write(b"\x7f" * (len(r0.data) * 3 + 64))
                elif kind == "join":
                    nm, xf = out_name("join%d" % k, o["fmt"],
                                      o.get("naming", "ext"))
                    fn = os.path.join(tmp, nm)
                    sil = o["silence_samples"] / sr
                    w = W.AudioEventsJoinerWorker(sil, fn, xf, sr, sw, ch,
                                                  timeout=o["timeout"])
                    w._v_sil = sil
                    w._v_fn = fn
                elif kind == "player":
                    fp = FakePlayer()
                    w = W.PlayerWorker(fp, timeout=o["timeout"], **lkw)
                    w._v_player = fp
                else:
                    w = W.CommandLineWorker("run {file}",
                                            timeout=o["timeout"], **lkw)
                out.append(w)
            return out

        whole_E = None
        if stop is None and sc.get("stale_files") and any(
                o["kind"] == "region" for o in sc["observers"]):
            try:
                whole_E = C.oracle_regions(data, sr, sw, ch, bd, params,
                                           sc["max_read"])
            except Exception:
                whole_E = None

        def arm_stop():
            kind, j = stop["kind"], stop["j"]

            def fire():
                sim.fire_external("stop")
                if stop["boost"]:
                    sim.boost = [sim.threads[0], stop["boost"]]
            if kind == "immediate":
                sim.ext_fired.add("stop")
            elif kind == "read":
                sim.add_trigger("src.read", j, fire)
            elif kind == "sent":
                # detection j handed to the first observer
                cnt = {"n": 0}

                def on_put():
                    pass
                sim.add_trigger("put", j, fire, role="TokenizerWorker")
            elif kind == "put":
                sim.add_trigger("put", j, fire)
            elif kind == "timeout":
                sim.add_trigger("timeout", j, fire)
            elif kind == "time":
                sim.after(stop["time"], fire)
            elif kind == "wavwrite":
                sim.add_trigger("wav.write", j, fire)
            elif kind == "get":
                sim.add_trigger("get", j, fire)
            # 'end': only the quiescence fallback fires it
            sim.on_quiescent = lambda: sim.fire_external("stop", "quiescent")

        def other_session(concurrent):
            d0 = data[::-1][:(6 + len(data) // (2 * bsz * sw * ch))
                            * bsz * sw * ch]
            d0 = d0[:len(d0) - len(d0) % (sw * ch)]
            src0 = sources.SimAudioSource(d0, sr, sw, ch, label="src0")
            rd0 = AudioReader(src0, block_dur=bd)
            prod0 = res["other_prod"] = []
            rd0_read = rd0.read

            def rec_rd0_read():
                b = rd0_read()
                if b is not None:
                    prod0.append(b)
                return b
            rd0.read = rec_rd0_read
            sv0 = W.StreamSaverWorker(rd0, os.path.join(tmp, "other.wav"),
                                      cache_size_sec=3 * bsz / sr)
            sv0.start()
            ob0 = RecObs(0.2)
            tk0 = W.TokenizerWorker(sv0, [ob0], **kw)
            tk0.start_all()
            if concurrent:
                res["other"] = (tk0, ob0, sv0, src0)
                return
            tk0.join()
            ob0.join()
            sv0.join()
            cyc = [tk0, sv0, ob0, rd0]
            cyc.append(cyc)      # garbage only the cyclic collector frees
            sim.note("prior_session.done")

        def join_other():
            tk0, ob0, sv0, src0 = res["other"]
            tk0.join()
            ob0.join()
            sv0.join()
            sv0.export_audio()
            # what that pipeline's reader produced (falls back to what its
            # source served when the reader is not called through read())
            res["other_served"] = b"".join(res.get("other_prod") or [])
            if not res["other_served"] and src0.served_bytes():
                res["other_served"] = None   # reader bypassed: not judged

        def main():
            if sc.get("prior_session"):
                other_session(False)
            elif sc.get("concurrent_session"):
                other_session(True)
            src = sources.SimAudioSource(data, sr, sw, ch, stall=stall)
            rkw = {}
            if sc["max_read"] is not None:
                rkw["max_read"] = sc["max_read"]
            reader = AudioReader(src, block_dur=bd, **rkw)
            res["src"] = src
            # "the blocks that were read" are the blocks the READER produced
            # (how the reader pulls from the raw source - read-ahead, a
            # limiter that truncates - is its own business): recorded here
            rprod = res["rprod"] = []
            reader_read = reader.read

            def rec_reader_read():
                b = reader_read()
                if b is not None:
                    rprod.append((b, sim.seq))
                return b
            reader.read = rec_reader_read
            observers = build_observers()
            res["obs"] = observers
            saver = None
            rd = reader
            if sc["saver"] is not None:
                sv = sc["saver"]
                nm, xf = out_name("stream", sv["fmt"],
                                  sv.get("naming", "ext"))
                fn = os.path.join(tmp, nm)
                saver = W.StreamSaverWorker(
                    reader, fn, export_format=xf,
                    cache_size_sec=sv["cache_blocks"] * bsz / sr,
                    timeout=sv["timeout"])
                res["saver_fn"] = fn
                # record what the tokenizer sees through the saver
                seen = res["seen"] = []
                orig_read = saver.read

                def rec_read():
                    b = orig_read()
                    seen.append(b)
                    return b
                saver.read = rec_read
                saver.start()
                rd = saver
            res["saver"] = saver
            tok = W.TokenizerWorker(rd, observers, **lkw, **kw)
            res["tok"] = tok
            # what the tokenizer itself receives (split() reads through
            # tok.read): recorded to compare with what was saved
            tseen = res["tok_seen"] = []
            tok_read = tok.read

            def rec_tok_read():
                b = tok_read()
                tseen.append(b)
                return b
            tok.read = rec_tok_read
            if stop is not None:
                arm_stop()
            tok.start_all()
            sim.note("started")
            for _ in range(sc.get("peek_saver_data", 0) if saver is not None
                           else 0):
                sim.step("peek", None)
                try:
                    saver.data
                except Exception:
                    pass   # a wav still being written may not be readable
            if stop is None and sc.get("join_only_tokenizer"):
                tok.join()
                res["complete"] = True
                return
            if stop is None:
                tok.join()
                for o in observers:
                    o.join()
            else:
                sim.wait_external("stop")
                sim.note("stop.request")
                res["stop_seq"] = sim.seq
                tok.stop_all()
                sim.note("stop.done")
            if saver is not None:
                saver.join()
                saver.export_audio()
            for o in observers:
                if isinstance(o, W.AudioEventsJoinerWorker):
                    o.join()  # as cmdline.main does before exporting
                    o.export_audio()
            if sc.get("concurrent_session"):
                join_other()
            res["complete"] = True

        import gc
        gc.disable()
        try:
            failure = sim.run(main)
            out = self._base_outcome(sim, want_trace)
            if sim.harness_error:
                out["error"] = sim.harness_error
                return out
            try:
                v = self._judge(sc, sim, res, failure, data, prop, W, tmp)
            except Exception:
                import traceback
                out["error"] = "oracle crashed: " + traceback.format_exc()
                return out
            out["violation"] = v
            self._probes(out, sc, sim, res)
            return out
        finally:
            res.clear()
            C.rm_scratch(tmp)

    def _base_outcome(self, sim, want_trace):
        faults = {}
        for k in ("timeout_fired", "timer_fired_early", "stall", "starve",
                  "preempt", "pct_change", "queue_full", "gc"):
            if sim.counters.get(k):
                faults[k] = sim.counters[k]
        out = {"violation": None, "error": None, "steps": sim.steps,
               "simtime": sim.now, "sig": sim.sig,
               "states": sim.state_hashes, "faults": faults,
               "probes": {}, "nontrivial": False}
        h = hashlib.blake2b(repr(sim.log).encode(), digest_size=8)
        out["digest"] = h.hexdigest()
        if want_trace:
            out["trace"] = [list(e) for e in sim.log[-600:]]
        return out

    def _probes(self, out, sc, sim, res):
        p = out["probes"]
        c = sim.counters
        nd = res.get("_nd", 0)
        mb = c.get("max_backlog", 0)
        if nd == 0:
            p["zero_detections"] = 1
        if c.get("timeout_then_item_present"):
            p["timeout_then_late_message"] = 1
        if sc.get("prior_session"):
            p["prior_session_garbage"] = 1
        if sc.get("concurrent_session"):
            p["second_pipeline_concurrently"] = 1
        if mb >= 1024:
            p["inbox_backlog_ge_1024"] = 1
        if c.get("marker_behind_backlog"):
            p["marker_behind_backlog"] = 1
        if mb >= 128:
            p["inbox_backlog_ge_128"] = 1
        elif mb >= 16:
            p["inbox_backlog_ge_16"] = 1
        nw = sum(1 for e in sim.log if e[2] == "wav.write"
                 and isinstance(e[3], tuple) and str(e[3][0]).startswith(
                     "stream."))
        if nw >= 2:
            p["cache_flush_midstream"] = 1
        if res.get("_read_after_eof"):
            p["source_read_after_eof"] = 1
        if res.get("_flush_at_stop"):
            p["stop_while_event_open"] = 1
        if sc["stop"] is not None:
            out["faults"]["stop:" + sc["stop"]["kind"]] = 1
            if res.get("_stop_before_end"):
                p["stop_before_natural_end"] = 1
            st = sc["stop"]
            if "slot" in st:
                # enumeration bookkeeping (thorough tier)
                if st["slot"] < st["npos"]:
                    p["stop_positions_enumerated_first_pass"] = 1
                p["stop_position_runs"] = 1
                if st["slot"] == 0:
                    p["enumeration_groups_started"] = 1
                    p["stop_positions_in_started_groups"] = st["npos"]
        out["nontrivial"] = bool(nd >= 1 and c.get("switch_inflight", 0) >= 1)
        out["shape"] = "%s/obs%d/%s" % (
            sim.policy, len(sc["observers"]),
            "saver" if sc["saver"] else "nosaver")
        out["summary"] = {"detections": nd, "switches": sim.switches,
                          "virtual_s": round(sim.now, 3)}

    # --------------------------------------------------------------- oracle
    def _judge(self, sc, sim, res, failure, data, prop, W, tmp):
        def V(clause, detail, sig=None):
            return {"clause": clause, "detail": str(detail)[:1500],
                    "signature": sig or clause}

        sw, ch, sr, bsz = sc["fmt"]
        bps = sw * ch
        stop = sc["stop"]
        pfx = prop
        # ---- escaped exceptions (C12.4 / C14.5)
        for t in sim.threads:
            if t.exc is not None:
                cl = {"C12": "C12.4", "C13": "C13.4", "C14": "C14.5"}[prop]
                return V(cl, "exception escaped %s: %r\n%s" % (
                    t.role, t.exc, (t.exc_tb or "")[-900:]),
                    cl + ":" + type(t.exc).__name__)
        # ---- termination (C12.3 / C14.1)
        if failure is not None:
            kind, detail = failure
            cl = {"C12": "C12.3", "C13": "C13.4", "C14": "C14.1"}[prop]
            return V(cl, "%s: %s" % (kind, detail), cl + ":" + kind)
        if not res.get("complete"):
            raise RuntimeError("main did not complete but no failure")
        src = res["src"]
        served = src.served_bytes()
        rprod = res.get("rprod") or []
        if not rprod and any(b for b in (res.get("tok_seen") or [])
                             if b is not None):
            # the tokenizer did receive audio but reader.read was never
            # called through the instance: the reader is bypassed, fall
            # back to what the raw source handed out
            rprod = [(c_, q_) for c_, q_ in zip(src.served, src.served_seq)]
        produced = b"".join(c_ for c_, _ in rprod)
        max_read = sc["max_read"]
        max_samples = None if max_read is None else round(max_read * sr)
        natural_end = src.exhausted or served == data or (
            max_samples is not None and len(served) // bps >= max_samples)
        if stop is None:
            base = data
        else:
            base = produced
            tseen_l = res.get("tok_seen")
            if tseen_l:
                # "the part of the stream read up to that moment": what the
                # tokenizer itself received.  A block still in flight when
                # the stop arrived may or may not be part of it; everything
                # read before the request must be.
                recv = b"".join(b for b in tseen_l if b is not None)
                if produced[:len(recv)] != recv:
                    return V("C14.2", "the tokenizer received audio that is "
                             "not a prefix of what the reader produced",
                             "C14.2:not_a_prefix")
                before = sum(len(c) for c, q in rprod
                             if q <= res.get("stop_seq", 0))
                if len(recv) < before:
                    return V("C14.2", "%d bytes had been read from the "
                             "reader before the stop was requested, the "
                             "tokenizer received only %d" % (before,
                                                             len(recv)),
                             "C14.2:lost_before_stop")
                base = recv
        E = C.oracle_regions(base, sr, sw, ch, sc["block_dur"], sc["params"],
                             max_read)
        res["_nd"] = len(E)
        exp = [C.region_key(i, r) for i, r in enumerate(E, 1)]
        if stop is not None:
            res["_stop_before_end"] = not natural_end
            if E and abs(E[-1].end * sr - len(served) // bps) < 0.5 \
                    and not natural_end:
                res["_flush_at_stop"] = True

        tok = res["tok"]
        observers = res["obs"]
        saver = res["saver"]

        if prop in ("C12", "C14"):
            c_obs = pfx + (".1" if prop == "C12" else ".2")
            # ---- per-observer delivery
            for k, (o, od) in enumerate(zip(observers, sc["observers"])):
                kind = od["kind"]
                if kind == "rec":
                    st_o = o.__dict__.get("_sim_thread")
                    msgs = o.got
                    if st_o is not None and st_o.daemon:
                        # a daemon thread dies with the process
                        xs_ = sim.process_exit_seq()
                        msgs = [m for m, q in zip(o.got, o.seqs) if q <= xs_]
                    got = [C.region_key(m[0], m[1]) for m in msgs]
                    if got != exp:
                        return V(c_obs, "observer %d (rec) got ids %s, "
                                 "expected %s; first diff: %s" % (
                                     k, [g[0] for g in got],
                                     [e[0] for e in exp],
                                     _first_diff(got, exp)), c_obs + ":rec")
                elif kind == "print":
                    from auditok.util import make_duration_formatter
                    f = make_duration_formatter("%S")
                    want = ["P%d|%d|%s|%s|%s\n" % (k, i, f(r.start), f(r.end),
                                                   f(r.duration))
                            for i, r in enumerate(E, 1)]
                    xs_ = sim.process_exit_seq()
                    dr_ = sim.daemon_roles()
                    got = [ln for ln, (q, role) in zip(seams.PRINTED,
                                                       seams.PRINT_META)
                           if ln.startswith("P%d|" % k)
                           and not (role in dr_ and q > xs_)]
                    if got != want:
                        return V(c_obs, "print observer %d lines %r != %r" % (
                            k, got, want), c_obs + ":print")
                elif kind == "player":
                    if o._v_player.played != [bytes(r.data) for r in E]:
                        return V(c_obs, "player observer %d played %d items, "
                                 "expected %d" % (k, len(o._v_player.played),
                                                  len(E)), c_obs + ":player")
                elif kind == "cmd":
                    pass  # judged collectively below
            ncmd = sum(1 for od in sc["observers"] if od["kind"] == "cmd")
            if ncmd:
                calls = list(seams.SYSTEM_CALLS)
                if len(calls) != ncmd * len(E):
                    return V(c_obs, "command observers ran %d commands, "
                             "expected %d" % (len(calls), ncmd * len(E)),
                             c_obs + ":cmd")
                want = sorted(bytes(r.data) for r in E for _ in range(ncmd))
                got = []
                for content in seams.SYSTEM_FILES:
                    try:
                        import io as _io
                        import wave as _wave
                        with _wave.open(_io.BytesIO(content), "rb") as w_:
                            got.append(w_.readframes(w_.getnframes() + 10))
                    except Exception:
                        got.append(content)
                if sorted(got, key=repr) != sorted(want, key=repr):
                    return V(c_obs, "command observer audio differs",
                             c_obs + ":cmd")
            # ---- tokenizer's own list
            c_det = pfx + ".2"
            want = [(i, r.start, r.end, r.duration) for i, r in enumerate(E, 1)]
            got = [(d.id, d.start, d.end, d.duration)
                   if hasattr(d, "duration") else tuple(d)[:4]
                   for d in tok.detections]
            if got != want:
                return V(c_det, "tokenizer.detections %r != %r" % (got, want),
                         c_det + ":detections")
            # region / join observers: delivery visible through files
            v = self._judge_files(sc, res, E, tmp, W, V, c_obs, base)
            if v is not None:
                return v

        if prop == "C12":
            # ---- C12.3: nobody called stop; all threads done (failure None)
            for t in sim.threads:
                if t.state != sched.DONE:
                    return V("C12.3", "thread %s not finished" % t.role)
            # ---- C12.5: source read to exhaustion, EOS requested once
            if max_read is None:
                if served != data:
                    return V("C12.5", "source not read to exhaustion: served "
                             "%d of %d bytes, eof=%d" % (
                                 len(served), len(data), src.eof_returned))
            if src.reads_after_eof:
                # single end-of-stream request is C08's statement (checked by
                # engine online, L3); here only a probe
                res["_read_after_eof"] = True

        if res.get("other_served") is not None and prop in ("C13", "C14"):
            try:
                d_o, _ = C.read_wav(os.path.join(tmp, "other.wav"))
            except Exception as e:
                d_o = repr(e)
            if d_o != res["other_served"]:
                cl = "C13.1" if prop == "C13" else "C14.4"
                return V(cl, "a second, independent pipeline running "
                         "concurrently saved a stream that differs from what "
                         "its own source served (%s vs %d bytes)" % (
                             len(d_o) if isinstance(d_o, bytes) else d_o,
                             len(res["other_served"])), cl + ":other_pipeline")
        if prop == "C13":
            v = self._judge_files(sc, res, E, tmp, W, V, "C13", base)
            if v is not None:
                return v
            if saver is not None:
                v = self._judge_saver(sc, res, produced, saver, V, "C13.1")
                if v is not None:
                    return v

        if prop == "C14":
            # ---- C14.3 no premature end
            exit_seq = None
            st_main_ = tok.__dict__.get("_sim_thread")
            for e in sim.log:
                if e[2] == "exit" and st_main_ is not None \
                        and e[1] == st_main_.role:
                    exit_seq = e[0]
            if not natural_end and exit_seq is not None \
                    and exit_seq < res["stop_seq"]:
                return V("C14.3", "tokenizer ended (seq %d) before the stop "
                         "was requested (seq %d) although the source still "
                         "had data" % (exit_seq, res["stop_seq"]))
            for t in sim.threads:
                if t.state != sched.DONE:
                    return V("C14.1", "thread %s not finished" % t.role)
            # ---- C14.6 the stop takes effect: once main has published the
            # request and is waiting for the tokenizer (its first join after
            # the request), at most the read in flight plus two more may be
            # started - not the rest of the stream
            jseq = None
            st_main = tok.__dict__.get("_sim_thread")
            main_role = st_main.role if st_main is not None else None
            for e in sim.log:
                if e[0] > res["stop_seq"] and e[1] == "main" \
                        and e[2] == "join" and e[3] == main_role:
                    jseq = e[0]
                    break
            if jseq is not None:
                # reads of this pipeline's own source only
                late = sum(1 for e in sim.log
                           if e[0] > jseq and e[2] == "src.read"
                           and e[1] == main_role)
                res["_late_reads"] = late
                # no numeric bound is promised: only a request that had no
                # effect at all is judged - at least 8 blocks were still to
                # come and the stream was nevertheless read to its end
                before = sum(1 for e in sim.log
                             if e[0] <= jseq and e[2] == "src.data"
                             and e[1] == main_role)
                total_blocks = -(-len(data) // (bsz * bps))
                if max_samples is not None:
                    total_blocks = min(total_blocks,
                                       -(-max_samples // bsz))
                remaining = total_blocks - before
                if remaining >= 8 and natural_end and late >= remaining:
                    return V("C14.6", "%d source reads were started after "
                             "the stop request had been published and main "
                             "was already waiting for the tokenizer: the "
                             "whole rest of the stream (%d blocks) was read "
                             "(the request was ignored or lost)" % (
                                 late, remaining), "C14.6:stop_ignored")
            if saver is not None:
                v = self._judge_saver(sc, res, produced, saver, V, "C14.4")
                if v is not None:
                    return v
        return None

    def _judge_saver(self, sc, res, served, saver, V, clause):
        sw, ch, sr, bsz = sc["fmt"]
        fn = res["saver_fn"]
        seen = b"".join(b for b in res["seen"] if b is not None)
        if seen != served:
            return V(clause, "tokenizer saw %d bytes through the saver but "
                     "the reader produced %d" % (len(seen), len(served)),
                     clause + ":seen")
        try:
            d, hp = _read_either(fn, sc["saver"]["fmt"],
                                 sc["saver"].get("naming", "ext"))
            if hp is not None and hp != (sr, sw, ch):
                return V(clause, "saved stream header %r != %r" % (
                    hp, (sr, sw, ch)), clause + ":header")
        except Exception as e:
            return V(clause, "saved stream file unreadable: %r" % (e,),
                     clause + ":unreadable")
        if d != served:
            return V(clause, "saved stream has %d bytes, reader produced %d; %s"
                     % (len(d), len(served), _first_diff_bytes(d, served)),
                     clause + ":data")
        tseen = b"".join(b for b in res.get("tok_seen", []) if b is not None)
        if res.get("tok_seen") and tseen != d:
            return V(clause, "the saved stream holds %d bytes but the "
                     "tokenizer received %d bytes (a block was saved that "
                     "the tokenizer never saw, or vice versa)" % (
                         len(d), len(tseen)), clause + ":tok_seen")
        nwrites = 0
        return None

    def _judge_files(self, sc, res, E, tmp, W, V, clause, base):
        sw, ch, sr, bsz = sc["fmt"]
        c_join = "C13.2" if clause == "C13" else clause
        c_reg = "C13.3" if clause == "C13" else clause
        for k, (o, od) in enumerate(zip(res["obs"], sc["observers"])):
            if od["kind"] == "join":
                from auditok import make_silence
                fn = o._v_fn
                if not E and not os.path.exists(fn):
                    continue   # nothing detected: no file is fine too
                try:
                    d, hp = _read_either(fn, od["fmt"],
                                         od.get("naming", "ext"))
                    if hp is not None and hp != (sr, sw, ch):
                        return V(c_join, "joined file header %r" % (hp,),
                                 c_join + ":join_header")
                except Exception as e:
                    return V(c_join, "joined file unreadable: %r" % (e,),
                             c_join + ":join_unreadable")
                sil = b"\x00" * (round(o._v_sil * sr) * sw * ch)
                want = sil.join(bytes(r.data) for r in E)
                if d != want:
                    return V(c_join, "joined file has %d bytes, expected %d "
                             "(%d events, silence %d bytes); %s" % (
                                 len(d), len(want), len(E), len(sil),
                                 _first_diff_bytes(d, want)),
                             c_join + ":join_data")
            elif od["kind"] == "region":
                t = o._v_tmpl
                prefix = os.path.join(tmp, "r%d_" % k)
                files = sorted(glob.glob(prefix + "*"))
                names = [t.format(id=i, start=r.start, end=r.end,
                                  duration=r.duration)
                         for i, r in enumerate(E, 1)]
                if files != sorted(names):
                    return V(c_reg, "region files %r != %r" % (
                        [os.path.basename(f) for f in files],
                        [os.path.basename(f) for f in sorted(names)]),
                        c_reg + ":region_names")
                for nme, r in zip(names, E):
                    try:
                        if nme.endswith(".wav"):
                            d, hp = C.read_wav(nme)
                            if hp != (sr, sw, ch):
                                return V(c_reg, "region file header %r" % (
                                    hp,), c_reg + ":region_header")
                        else:
                            with open(nme, "rb") as f:
                                d = f.read()
                    except Exception as e:
                        return V(c_reg, "region file unreadable: %r" % (e,),
                                 c_reg + ":region_unreadable")
                    if d != bytes(r.data):
                        return V(c_reg, "region file %s differs from its "
                                 "detection" % os.path.basename(nme),
                                 c_reg + ":region_data")
        return None


def _read_either(fn, fmt, naming):
    """(audio bytes, wav header or None).  When the format was conveyed by
    the extension alone it is unambiguous; when an explicit export_format
    contradicts / replaces the extension, which of the two wins is not fixed
    by the statement: the audio is accepted in either container."""
    if naming == "ext":
        if fmt == "wav":
            return C.read_wav(fn)
        with open(fn, "rb") as f:
            return f.read(), None
    try:
        return C.read_wav(fn)
    except Exception:
        with open(fn, "rb") as f:
            return f.read(), None


def _first_diff(a, b):
    for i, (x, y) in enumerate(zip(a, b)):
        if x != y:
            return "index %d: got id=%r start=%r end=%r len=%d, expected " \
                   "id=%r start=%r end=%r len=%d" % (
                       i, x[0], x[2], x[3], len(x[1]),
                       y[0], y[2], y[3], len(y[1]))
    return "length %d vs %d" % (len(a), len(b))


def _first_diff_bytes(a, b):
    n = min(len(a), len(b))
    for i in range(n):
        if a[i] != b[i]:
            return "first differing byte at %d" % i
    return "common prefix %d bytes" % n

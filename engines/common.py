"""Shared scenario pieces: audio synthesis, parameter grids, sequential oracle."""
import os
import shutil
import tempfile
import wave

ETH = 20  # energy threshold (dB) used everywhere: loud >= 36 dB, quiet <= 10 dB


_FROZEN = [False]


def collect_garbage():
    """Finalise what earlier runs of this process left behind BEFORE this
    run's scratch files exist: the library's savers delete their temporary
    file by name in __del__, and the scratch path is shared between runs - a
    late finaliser would otherwise act on the current run's files and make a
    run depend on which runs preceded it in the process."""
    import gc
    gc.collect()
    if not _FROZEN[0]:
        # everything alive now (modules, engines) is permanent: later
        # collections only look at what the runs create
        gc.freeze()
        _FROZEN[0] = True


def scratch_dir(collect=False):
    """Per-run scratch directory.  The path is the SAME for every run of one
    process (removed and re-created), so that code which remembers something
    about a path across uses (memoised headers, cached contents) meets the
    same path again with different content - as a user overwriting a file
    would produce."""
    if collect:
        collect_garbage()
    base = "/dev/shm" if os.path.isdir("/dev/shm") else tempfile.gettempdir()
    d = os.path.join(base, "vsim_%d" % os.getpid())
    if os.path.isdir(d):
        shutil.rmtree(d, ignore_errors=True)
    os.makedirs(d, exist_ok=True)
    return d


def rm_scratch(d):
    shutil.rmtree(d, ignore_errors=True)


def make_window(i, loud, nsamples, sw, ch):
    """Bytes of one analysis window.  Every window is (nearly) unique so that
    lost / duplicated / reordered blocks are visible byte-wise.  Loud samples
    have every byte in [0x40, 0x7f] (positive, >= 36 dB); quiet samples have
    only a low byte in [0, 3] (<= 10 dB)."""
    out = bytearray()
    for s in range(nsamples):
        for c in range(ch):
            if loud:
                b = 0x40 | ((i * 7 + s * 3 + c) & 0x3F)
                out += bytes([b]) * sw
            else:
                out += bytes([(i + s + c) & 3]) + b"\x00" * (sw - 1)
    return bytes(out)


def synth(pattern, bsz, sw, ch, extra=0, extra_loud=True):
    """pattern: list of 0/1 per window; extra: samples of a partial last
    window."""
    parts = [make_window(i, p, bsz, sw, ch) for i, p in enumerate(pattern)]
    if extra:
        parts.append(make_window(len(pattern), extra_loud, extra, sw, ch))
    return b"".join(parts)


def gen_format(T, rich=True):
    sw = T.choice([1, 2, 4])
    ch = T.choice([1, 2, 3]) if rich else T.choice([1, 2])
    sr = T.choice([10, 8, 16, 100, 1000, 8000, 16000])
    bsz = T.choice([1, 2, 3, 5, 8])
    return sw, ch, sr, bsz


def block_dur_for(bsz, sr):
    """A block_dur argument for which int(block_dur * sr) == bsz."""
    bd = bsz / sr
    if int(bd * sr) != bsz:
        bd = (bsz + 0.5) / sr
    assert int(bd * sr) == bsz
    return bd


def gen_split_params(T, w):
    """Benign grid: window counts are unambiguous for window duration w."""
    mx = T.between(1, 8)
    mn = T.between(1, mx)
    ms = T.draw(mx)  # 0 .. mx-1
    drop = bool(T.draw(2))
    strict = bool(T.draw(2))
    return {
        "mn": mn, "mx": mx, "ms": ms,
        "min_dur": (mn - 0.5) * w,
        "max_dur": (mx + 0.25) * w,
        "max_silence": 0 if ms == 0 else (ms + 0.25) * w,
        "drop_trailing_silence": drop,
        "strict_min_dur": strict,
    }


def split_kwargs(p):
    return {k: p[k] for k in ("min_dur", "max_dur", "max_silence",
                              "drop_trailing_silence", "strict_min_dur")}


def gen_pattern(T, n):
    """n windows, loud/quiet.  Drawn last on the tape so that shrinking the
    count does not misalign other draws."""
    kind = T.draw(3)
    out = []
    if kind == 0:  # iid
        p = T.choice([5, 3, 8])
        for _ in range(n):
            out.append(1 if T.draw(10) < p else 0)
    elif kind == 1:  # bursty markov
        cur = T.draw(2)
        for _ in range(n):
            out.append(cur)
            if T.draw(4) == 0:
                cur ^= 1
    else:  # boundary-adversarial: runs of drawn lengths
        cur = 1
        while len(out) < n:
            ln = T.between(1, 9)
            out.extend([cur] * ln)
            cur ^= 1
        out = out[:n]
    return out


def oracle_regions(data, sr, sw, ch, block_dur, params, max_read=None,
                   extra_kwargs=None):
    """Sequential reference: same tree, no threads, fresh objects."""
    from auditok import AudioReader, split
    from auditok.io import BufferAudioSource
    kw = {}
    if max_read is not None:
        kw["max_read"] = max_read
    reader = AudioReader(BufferAudioSource(data, sr, sw, ch),
                         block_dur=block_dur, **kw)
    k = dict(split_kwargs(params))
    k["eth"] = ETH
    if extra_kwargs:
        k.update(extra_kwargs)
    return list(split(reader, **k))


def read_wav(path):
    with wave.open(path, "rb") as w:
        return (w.readframes(w.getnframes() + 10),
                (w.getframerate(), w.getsampwidth(), w.getnchannels()))


def region_key(i, r):
    return (i, bytes(r.data), r.start, r.end, r.sr, r.sw, r.ch)


def write_wav(path, data, sr, sw, ch, trailer=False):
    """Writes a wav file; with trailer=True a LIST/INFO chunk follows the
    data chunk (as many editors and recorders write): still a valid wav whose
    audio is exactly `data`."""
    with wave.open(path, "wb") as w:
        w.setframerate(sr)
        w.setsampwidth(sw)
        w.setnchannels(ch)
        w.writeframes(data)
    if trailer:
        import struct
        info = b"INFOISFT" + struct.pack("<I", 14) + b"verif-sim 1.0\x00"
        chunk = b"LIST" + struct.pack("<I", len(info)) + info
        with open(path, "r+b") as f:
            f.seek(0, 2)
            if f.tell() % 2:
                f.write(b"\x00")
            f.write(chunk)
            size = f.tell() - 8
            f.seek(4)
            f.write(struct.pack("<I", size))
        # sanity: the standard reader still sees exactly the audio
        got, _ = read_wav(path)
        assert got == data, "trailer broke the wav file"
    stamp(path)


_MTIME = {"n": 0}


def stamp(path):
    """Scratch files reuse one path per process and are rewritten within
    microseconds; real file systems would give distinct modification times
    to files written at distinct moments, tmpfs only has tick resolution.
    Give every written input file a strictly increasing mtime (nanoseconds,
    same second) so that only caches which ignore sub-second changes - or the
    path's content altogether - can go stale."""
    _MTIME["n"] += 1
    ns = 1_700_000_000 * 10 ** 9 + _MTIME["n"] * 1000
    try:
        os.utime(path, ns=(ns, ns))
    except OSError:
        pass


def write_file(path, data):
    with open(path, "wb") as f:
        f.write(data)
    stamp(path)
